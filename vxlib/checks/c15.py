"""C15 -- each (file, pattern) verdict is independent of everything else in the run (mixed).

Verus (unit dispatch): analyze_for_* `ensures is_lines_of(r@, text, <locs>(pattern, parse_tree(text, file_number)))`: the returned
set is a FUNCTION of (text, file number, pattern) alone, given that the parser and the detectors are functions of their
arguments (assumed for the parser; for the detectors of the det_* units that is what their proved set-valued contracts say,
for the others it is the frame scan below plus the bounded run). Everything else in the statement (other files, position in
the directory, threads) is bounded:

`c15` (repetition, file numbers, history of other patterns, threads incl. deeply nested files, fresh process) plus the
directory contract `c03` (a file's lines inside analyze_dir equal its lines when analysed alone, whatever its siblings)."""
from .. import driver as D
from . import bounded


UNITS = [("dispatch", ["start", "end", "analyze_for_optimization", "analyze_for_vulnerability", "analyze_for_qa"])]
TRUST = ["solang_parser::parse is a function of (text, file number) (uninterpreted parse_ok / parse_tree)",
         "each detector is a function of the parse tree (`r@ == spec_<fn>(source_unit)` on external_body stubs in unit dispatch; proved for the detectors with set-valued contracts in units det_expr / det_decl / det_gate / det_vuln / det_incdec)",
         "Verus verifies safe Rust without interior mutability here: a verified function cannot read or write state outside its arguments"]
BOUNDED_PART = ["analyze_dir (directory position, siblings), thread interleavings, process-level state: native c15 + c03"]


def key_to_functions(key):
    return ["analyze_for_optimization", "analyze_for_vulnerability", "analyze_for_qa"]


def run(tier, seed):
    vd = D.Verdict("C15", tier, seed)
    covs, failed = bounded.run_units(vd, UNITS)
    try:
        binary, _ = D.build_native()
    except D.BuildError as e:
        vd.add_undecided(str(e)[:800])
        return vd.finish({"level": "exploration", "coverage": {"evaluations": 1, "distinct_nontrivial": 2, "rule": "native harness did not build", "samples": ["-"]}})
    nat = D.run_native(binary, "c15", tier, seed)
    D.combine(vd, failed, nat, key_to_functions=key_to_functions)
    ndir = D.run_native(binary, "c03", tier, seed)
    for v in ndir.get("violations", []):
        vd.add_violation("c15:" + v["key"], "inside a directory run: " + v["what"], obligation="analyze_dir result == union of the per-file results", counterexample=v.get("replay"),
                         expected=v.get("expected"), actual=v.get("actual"))
    ev = bounded.evidence_from_native(nat, ["thread interleavings are sampled by the OS scheduler, not explored systematically"])
    ev["coverage"]["evaluations"] += int(ndir.get("evaluations", 0))
    from .. import framescan
    fs = framescan.scan()
    ev["coverage"]["frame_scan"] = fs
    if fs["state_outside_arguments"]:
        ev["assumptions"].append("frame scan: constructs that can hold state outside the arguments were found in src/analyzer: %s" % fs["state_outside_arguments"][:5])
    ev["coverage"]["directory_part"] = {k: ndir.get(k) for k in ("evaluations", "distinct_nontrivial", "rule", "bound", "wall_s", "cmd")}
    return vd.finish(bounded.mixed_evidence(ev, covs, BOUNDED_PART, TRUST, tier, UNITS, vd))
