"""Bounded executable-contract checks for the detector-level properties C04..C09 and C19.

The native harness module `native/src/det.rs` (+ det_oracle.rs, det_corpus.rs, det_checks.rs) runs the REAL
detector functions on generated programs and compares the reported start offsets with an executable
transcription of DESIGN.md section 8:   must ⊆ reported ⊆ may.
This is the labelled bounded stand-in (level `exploration`) and the counterexample / replay engine
(`vxn det-case <prop> <detector> @src:<text>`); it is never counted as proof.  The per-property check
files (c04.py .. c09.py, c19.py) combine this result with the deductive part."""
from . import bounded

CONTRACTS = {
    "C04": "every detector returns normally on every file the parser accepts",
    "C05": "must ⊆ reported ⊆ may for the 11 expression-level gas detectors (DESIGN.md §8 C05)",
    "C06": "must ⊆ reported ⊆ may for the 5 declaration-level detectors (DESIGN.md §8 C06)",
    "C07": "must ⊆ reported ⊆ may for the 4 vulnerability detectors (DESIGN.md §8 C07)",
    "C08": "never / always / only clauses of the 4 mutability detectors (DESIGN.md §8 C08)",
    "C09": "version-gated detectors follow the (major, minor, patch) triple of 'pragma solidity' (DESIGN.md §8 C09)",
    "C02-LOC": "a reported location is the first byte of the construct named under `loc` in DESIGN.md §8, not of one of its sub-nodes",
    "C19": "findings of a file == union of the findings of its top-level items analysed alone",
}


def run(prop, tier, seed):
    prop = prop.upper()
    return bounded.run_bounded(prop, prop.lower(), tier, seed, CONTRACTS[prop])
