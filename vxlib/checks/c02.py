"""C02 -- every reported line is the line on which the flagged construct begins (bounded).

Two native checks: `c02` (get_line_number exhaustive on short texts; analyze_for_* line sets on programs x layouts)
and `c02-loc` (the detector reports the location of the construct named in DESIGN §8, not of a sub-node).
For the detectors under a Verus contract the reported location is also part of the proved postcondition
(loc_P in units det_expr / det_decl / det_gate / det_vuln, checked by C05-C07, C09)."""
from .. import driver as D
from . import bounded


def run(tier, seed):
    vd = D.Verdict("C02", tier, seed)
    try:
        binary, _ = D.build_native()
    except D.BuildError as e:
        vd.add_undecided(str(e)[:800])
        return vd.finish({"level": "exploration", "coverage": {"evaluations": 1, "distinct_nontrivial": 2, "rule": "native harness did not build", "samples": ["-"]}})
    nat = D.run_native(binary, "c02", tier, seed)
    bounded.add_native_violations(vd, nat, "get_line_number / analyze_for_* line contract")
    nloc = D.run_native(binary, "c02-loc", tier, seed)
    bounded.add_native_violations(vd, nloc, "reported location is the construct's own location")
    ev = bounded.evidence_from_native(nat, ["which node's location a detector reports is additionally part of the Verus contracts of C05-C07/C09 (loc_P)"])
    ev["coverage"]["evaluations"] += int(nloc.get("evaluations", 0))
    ev["coverage"]["distinct_nontrivial"] += int(nloc.get("distinct_nontrivial", 0))
    ev["coverage"]["wrong_node_location_check"] = {k: nloc.get(k) for k in ("evaluations", "distinct_nontrivial", "rule", "bound", "wall_s", "cmd")}
    return vd.finish(ev)
