"""C02 -- every reported line is the line on which the flagged construct begins (mixed).

Verus: unit `lines` (get_line_number == 1 + number of line feeds preceding the offset, over a trusted model of the regex
crate) and unit `dispatch` (analyze_for_*: the set of lines returned is exactly { line_of(start of l) | l reported by the
pattern's detector }, pt's Loc::start under contract). Which node's location a detector reports is part of the proved
postconditions of the detector units (loc_P, checked by C05-C07, C09).
Bounded: native `c02` (get_line_number exhaustive on short texts; analyze_for_* line sets on programs x layouts) and
`c02-loc` (the detector reports the location of the construct named in DESIGN §8, not of a sub-node), and the class
`wrong-line-set` of the directory check `c03` (the lines analyze_dir reports for a file are those of the per-file analysis)."""
from .. import driver as D
from . import bounded

UNITS = [("lines", None), ("dispatch", ["start", "end", "analyze_for_optimization", "analyze_for_vulnerability", "analyze_for_qa"])]
TRUST = [
    "regex crate (unit lines): Regex::new / captures_iter / Captures::iter / Match::start are external_body models; for the pattern `\\n` the captures are exactly the line feeds of the text, one group each, in increasing byte offset",
    "solang_parser::parse is a partial function of (text, file number) (uninterpreted parse_ok / parse_tree)",
    "precondition locs_in_text: every location a detector reports is a Loc::File whose first byte is not a line feed (constructs begin with a token); texts have fewer than 2^31-16 line feeds (i32 line numbers)",
    "in unit dispatch the detectors are external_body stubs `r@ == spec_<fn>(source_unit)`; get_line_number carries the contract proved in unit lines",
    "by-value iteration over HashSet<Loc> visits each element once (trusted iterator model); vstd's BTreeSet specs",
]
BOUNDED_PART = ["which construct's location each detector reports, for the detectors that are not under a Verus contract (native c02-loc)",
                "lf_positions is the text model (byte offsets of the LF bytes): that the regex engine really yields them is only exercised by the native c02 run on generated texts"]


def key_to_functions(key):
    if key.startswith("c02:c03"):
        return []
    if key.startswith("c02:analyze_for"):
        return ["analyze_for_optimization", "analyze_for_vulnerability", "analyze_for_qa", "start"]
    if key.startswith("c02-loc") or key.startswith("c02loc"):
        return []
    return ["get_line_number"]


def run(tier, seed):
    vd = D.Verdict("C02", tier, seed)
    covs, failed = bounded.run_units(vd, UNITS)
    try:
        binary, _ = D.build_native()
    except D.BuildError as e:
        vd.add_undecided(str(e)[:800])
        return vd.finish({"level": "exploration", "coverage": {"evaluations": 1, "distinct_nontrivial": 2, "rule": "native harness did not build", "samples": ["-"]}})
    nat = D.run_native(binary, "c02", tier, seed)
    nloc = D.run_native(binary, "c02-loc", tier, seed)
    # lines reported through analyze_dir: the directory check's class "a file's line set differs from the per-file analysis"
    ndir = D.run_native(binary, "c03", tier, seed)
    dir_v = [dict(v, key="c02:" + v["key"], what="through analyze_dir: " + v["what"]) for v in ndir.get("violations", []) if "wrong-line-set" in v["key"]]
    both = {"violations": list(nat.get("violations", [])) + list(nloc.get("violations", [])) + dir_v}
    D.combine(vd, failed, both, key_to_functions=key_to_functions)
    ev = bounded.evidence_from_native(nat, [])
    ev["coverage"]["evaluations"] += int(nloc.get("evaluations", 0))
    ev["coverage"]["distinct_nontrivial"] += int(nloc.get("distinct_nontrivial", 0))
    ev["coverage"]["evaluations"] += int(ndir.get("evaluations", 0))
    ev["coverage"]["directory_part"] = {k: ndir.get(k) for k in ("evaluations", "distinct_nontrivial", "rule", "bound", "wall_s", "cmd")}
    ev["coverage"]["wrong_node_location_check"] = {k: nloc.get(k) for k in ("evaluations", "distinct_nontrivial", "rule", "bound", "wall_s", "cmd")}
    return vd.finish(bounded.mixed_evidence(ev, covs, BOUNDED_PART, TRUST, tier, UNITS, vd))
