"""C02 -- every reported line is the line on which the flagged construct begins: bounded executable contracts
(get_line_number bounded-exhaustive + random texts; analyze_for_* over programs x layouts x 30 detectors)."""
from . import bounded


def run(tier, seed):
    return bounded.run_bounded(
        "C02", "c02", tier, seed,
        "get_line_number(off, s) == 1 + #LF before off; analyze_for_*(src, p) == { 1 + #LF before loc.start : loc in detector_p(parse(src)) }")
