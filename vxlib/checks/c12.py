"""C12 -- report totals, category parts and severity headings agree with the findings shown: bounded contract (native harness, rep.rs)."""
from . import bounded


def run(tier, seed):
    return bounded.run_bounded("C12", "c12", tier, seed, "printed totals, category parts and severity headings agree with the listed entries")
