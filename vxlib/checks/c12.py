"""C12 -- report totals, category parts and severity headings agree with the findings shown (mixed, mostly bounded).

Verus (unit sections): get_vulnerability_report_section returns, for every vulnerability pattern, the severity the property
names (selfdestruct high, divide-before-multiply medium, ERC20 and pragma low) together with that pattern's own section.
Bounded (native rep.rs): totals, category parts, headings printed iff a finding of that severity exists."""
from . import c11


def run(tier, seed):
    return c11.run(tier, seed, prop="C12", native="c12")
