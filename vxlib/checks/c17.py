"""C17 -- findings are invariant under re-layout and commenting of the source (mixed).

Verus (unit blind; lemmas over the contracts proved in the other units, no trusted item of its own): for trees that are equal up to
the values of their Loc fields -- `eqv_<T>`, generated from the parse-tree types -- the node enumerations correspond (generated,
proved per node type), hence so do the results of the tree search (`lemma_walk_eqv`; with C01: of the real walker), and each of the
12 predicates of the hits-form detectors of unit det_expr gives the same verdict on corresponding nodes (`lemma_blind_<pat>`):
the same positions of the search result are flagged (`lemma_c17_same_positions_flagged`). What links this to re-layouts is an
ASSUMPTION on the parser (the tree shape depends on the token sequence only; comments are not tokens), which -- like code-like text
in comments and strings, and like the detectors outside det_expr's hits-form -- is the bounded check's business:
native `c17` compares the token indices flagged on the one-token-per-line layout with every other token-preserving layout;
native `c17-pragma` compares, for all 30 detectors, a text whose pragma statements carry comments (the parser keeps those in the
pragma value) with the same text without them."""
from .. import driver as D
from . import bounded

UNITS = [("blind", None)]
TRUST = ["unit blind holds lemmas only; it relies on the detector postconditions proved in unit det_expr and on the walker contract proved in unit ast",
         "parser: a token-preserving re-layout changes the parse tree only in its Loc fields (assumption; exercised by the bounded check)"]
BOUNDED_PART = ["the parser assumption; comments and string contents; the detectors that are not in hits-form in unit det_expr (declaration-level, state-variable, version-gated detectors, cache_array_length, increment_decrement, unprotected_selfdestruct)",
                "the line arithmetic (C02) under CRLF / multi-byte layouts"]


def key_to_functions(key):
    return []


def run(tier, seed):
    vd = D.Verdict("C17", tier, seed)
    covs, failed = bounded.run_units(vd, UNITS)
    try:
        binary, _ = D.build_native()
    except D.BuildError as e:
        vd.add_undecided(str(e)[:800])
        return vd.finish({"level": "exploration", "coverage": {"evaluations": 1, "distinct_nontrivial": 2, "rule": "native harness did not build", "samples": ["-"]}})
    nat = D.run_native(binary, "c17", tier, seed)
    D.combine(vd, failed, nat, key_to_functions=key_to_functions)
    # comments INSIDE a pragma statement (the parser keeps them in the pragma value: the one place where the analysis sees comment text)
    npr = D.run_native(binary, "c17-pragma", tier, seed)
    bounded.add_native_violations(vd, npr, "a comment inside a pragma statement does not change any detector's findings")
    ev = bounded.evidence_from_native(nat, [])
    ev["coverage"]["evaluations"] += int(npr.get("evaluations", 0))
    ev["coverage"]["distinct_nontrivial"] += int(npr.get("distinct_nontrivial", 0))
    ev["coverage"]["pragma_comment_check"] = {k: npr.get(k) for k in ("evaluations", "distinct_nontrivial", "rule", "bound", "wall_s", "cmd")}
    return vd.finish(bounded.mixed_evidence(ev, covs, BOUNDED_PART, TRUST, None, None, vd))
