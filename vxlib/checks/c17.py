"""C17 -- findings are invariant under re-layout and commenting of the source: bounded executable contract
(token indices flagged on the one-token-per-line layout versus every other token-preserving layout)."""
from . import bounded


def run(tier, seed):
    return bounded.run_bounded(
        "C17", "c17", tier, seed,
        "for every token-preserving re-layout L: lines(analyze_for_*(L, p)) == lines in L of the tokens flagged on the one-token-per-line layout; "
        "text inside comments and string literals never changes the findings")
