"""C13 -- the report is a deterministic function of the set of findings (bounded).

`c13` (native rep.rs): the same findings rendered from fresh HashMap instances, permuted insertion orders, child processes
must give byte-identical text equal to the canonical rendering.
Plus `c13-dir` (native dirs_c13.rs), end to end: the same directory content materialised in 4 (quick) / 6 (thorough) copies that
differ only in creation order (so that read_dir lists them differently: observed, not assumed), analysed by the real analyze_dir
with the patterns in declaration / reversed / shuffled order, rendered by the real generate_*_report, repeated in-process and in
a fresh process: all texts must be byte-identical."""
from .. import driver as D
from . import bounded


def run(tier, seed):
    vd = D.Verdict("C13", tier, seed)
    try:
        binary, _ = D.build_native()
    except D.BuildError as e:
        vd.add_undecided(str(e)[:800])
        return vd.finish({"level": "exploration", "coverage": {"evaluations": 1, "distinct_nontrivial": 2, "rule": "native harness did not build", "samples": ["-"]}})
    nat = D.run_native(binary, "c13", tier, seed)
    bounded.add_native_violations(vd, nat, "report text depends only on the set of findings (canonical rendering)")
    ndir = D.run_native(binary, "c13-dir", tier, seed)
    # an environment in which the creation order does not change the listing order weakens this part but is not a failure of the
    # property: recorded as an assumption, the pattern-order / repeated-run / fresh-process comparisons still ran
    notes = [v for v in ndir.get("violations", []) if "listing-order-not-variable" in v["key"] or "feature-not-observed" in v["key"]]
    ndir["violations"] = [v for v in ndir.get("violations", []) if v not in notes]
    bounded.add_native_violations(vd, ndir, "same directory content (created in different orders, patterns configured in different orders, fresh process) => byte-identical reports")
    ev = bounded.evidence_from_native(nat, ["c13-dir: " + v["what"][:300] for v in notes])
    ev["coverage"]["evaluations"] += int(ndir.get("evaluations", 0))
    ev["coverage"]["directory_part"] = {k: ndir.get(k) for k in ("evaluations", "distinct_nontrivial", "rule", "bound", "wall_s", "cmd")}
    return vd.finish(ev)
