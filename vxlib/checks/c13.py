"""C13 -- the report is a deterministic function of the set of findings: bounded contract (native harness, rep.rs)."""
from . import bounded


def run(tier, seed):
    return bounded.run_bounded("C13", "c13", tier, seed, "report text depends only on the set of findings (canonical rendering)")
