"""C13 -- the report is a deterministic function of the set of findings (bounded).

`c13` (native rep.rs): the same findings rendered from fresh HashMap instances, permuted insertion orders, child processes
must give byte-identical text equal to the canonical rendering.
Plus the directory contract `c03` (the findings handed to the renderer do not depend on the listing order: every
files / sub-directory interleaving of analyze_dir yields the union of the per-file results) -- a run whose findings depend on
the order in which read_dir lists the entries gives different reports for the same directory content."""
from .. import driver as D
from . import bounded


def run(tier, seed):
    vd = D.Verdict("C13", tier, seed)
    try:
        binary, _ = D.build_native()
    except D.BuildError as e:
        vd.add_undecided(str(e)[:800])
        return vd.finish({"level": "exploration", "coverage": {"evaluations": 1, "distinct_nontrivial": 2, "rule": "native harness did not build", "samples": ["-"]}})
    nat = D.run_native(binary, "c13", tier, seed)
    bounded.add_native_violations(vd, nat, "report text depends only on the set of findings (canonical rendering)")
    ndir = D.run_native(binary, "c03", tier, seed)
    for v in ndir.get("violations", []):
        # only the violation class that is order-dependent by definition (which findings survive depends on which of two
        # entries of one directory is listed first); any other c03 violation is C03's business, not C13's
        if "subdir-result-replaces-parent-entries" not in v["key"]:
            continue
        vd.add_violation("c13:" + v["key"], "findings depend on the directory listing: " + v["what"], obligation="analyze_dir result == union of the per-file results, for every listing order",
                         counterexample=v.get("replay"), expected=v.get("expected"), actual=v.get("actual"))
    ev = bounded.evidence_from_native(nat, [])
    ev["coverage"]["evaluations"] += int(ndir.get("evaluations", 0))
    ev["coverage"]["directory_part"] = {k: ndir.get(k) for k in ("evaluations", "distinct_nontrivial", "rule", "bound", "wall_s", "cmd")}
    return vd.finish(ev)
