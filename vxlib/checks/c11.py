"""C11 -- the report lists exactly the findings, each under its own pattern's section (mixed, mostly bounded).

Verus (unit sections): get_optimization_report_section / get_vulnerability_report_section / get_qa_report_section return, for
every pattern, the text of the report-section module documented for that pattern (so a list can only follow the section of
the pattern that produced it if the rendering loop asks for the right pattern -- that loop is bounded).
Bounded (native rep.rs): the read-back contract of generate_*_report / generate_report."""
from .. import driver as D
from . import bounded

UNITS = [("sections", ["get_optimization_report_section", "get_vulnerability_report_section", "get_qa_report_section"])]
TRUST = ["the report-section modules are external_body stubs (`r@ == section_text_<module>()`); the variant -> module table is written from the documentation"]
BOUNDED_PART = ["generate_optimization_report / generate_vulnerability_report / generate_qa_report / generate_report (String concatenation, closures in sort_by_key / any, by-value HashMap and BTreeSet iteration, integer to_string: outside Verus' subset)"]


def key_to_functions(key):
    if "section" in key:
        return ["get_optimization_report_section", "get_vulnerability_report_section", "get_qa_report_section"]
    return []


def run(tier, seed, prop="C11", native="c11"):
    vd = D.Verdict(prop, tier, seed)
    covs, failed = bounded.run_units(vd, UNITS)
    try:
        binary, _ = D.build_native()
    except D.BuildError as e:
        vd.add_undecided(str(e)[:800])
        return vd.finish({"level": "exploration", "coverage": {"evaluations": 1, "distinct_nontrivial": 2, "rule": "native harness did not build", "samples": ["-"]}})
    nat = D.run_native(binary, native, tier, seed)
    D.combine(vd, failed, nat, key_to_functions=key_to_functions if prop == "C11" else key_to_functions_c12)
    ev = bounded.evidence_from_native(nat, [])
    return vd.finish(bounded.mixed_evidence(ev, covs, BOUNDED_PART, TRUST if prop == "C11" else TRUST + TRUST_C12, tier, UNITS, vd))


TRUST_C12 = ["severity table taken from the property statement: selfdestruct high, divide-before-multiply medium, ERC20 and pragma low"]


def key_to_functions_c12(key):
    if "heading" in key or "severity" in key:
        return ["get_vulnerability_report_section"]
    return []
