"""C11 -- the report lists exactly the findings, each under its own pattern's section: bounded read-back contract (native harness, rep.rs)."""
from . import bounded


def run(tier, seed):
    return bounded.run_bounded("C11", "c11", tier, seed, "report read-back == findings (entries, sections, per pattern)")
