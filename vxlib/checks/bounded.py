"""Generic wrapper for properties decided only by a bounded stand-in in the native harness.

Labelled `bounded` everywhere: level `exploration`, never counted as proved."""
from .. import driver as D


def evidence_from_native(nat, extra_assumptions=()):
    cov = {
        "evaluations": max(1, int(nat.get("evaluations", 0))),
        "distinct_nontrivial": int(nat.get("distinct_nontrivial", 0)),
        "rule": nat.get("rule", ""),
        "samples": nat.get("samples", []) or [{"note": "no sample recorded"}],
        "exhaustive": bool(nat.get("exhaustive", False)),
        "bound": nat.get("bound", ""),
        "checker_cmd": nat.get("cmd", ""),
        "bounded": True,
    }
    for k, v in nat.items():
        if k not in cov and k not in ("violations", "assumptions", "check", "cmd"):
            cov[k] = v
    return {"level": "exploration", "coverage": cov,
            "assumptions": ["BOUNDED stand-in (not a proof): only the generated cases were executed"] + list(nat.get("assumptions", [])) + list(extra_assumptions)}


def add_native_violations(vd, nat, obligation):
    for v in nat.get("violations", []):
        vd.add_violation(v["key"], v["what"], obligation=obligation, counterexample=v.get("replay"),
                         expected=v.get("expected"), actual=v.get("actual"))


def run_bounded(prop, native_check, tier, seed, obligation, extra_assumptions=(), extra_args=(), need_binary=False):
    vd = D.Verdict(prop, tier, seed)
    try:
        binary, _ = D.build_native()
    except D.BuildError as e:
        binary = None
        if need_binary:
            # the checks that drive the built binary do not need the rest of the harness
            try:
                binary, _ = D.build_native(binonly=True)
            except D.BuildError:
                binary = None
        if binary is None:
            vd.add_undecided(str(e)[:800])
            return vd.finish({"level": "exploration", "coverage": {"evaluations": 1, "distinct_nontrivial": 2, "rule": "native harness did not build", "samples": ["-"]}})
    env = {}
    if need_binary:
        try:
            env["VXN_SOLSTAT_BIN"] = D.build_repo_binary()
        except D.BuildError as e:
            vd.add_undecided(str(e)[:800])
            return vd.finish({"level": "exploration", "coverage": {"evaluations": 1, "distinct_nontrivial": 2, "rule": "solstat binary did not build", "samples": ["-"]}})
    nat = D.run_native(binary, native_check, tier, seed, extra=extra_args, env=env)
    add_native_violations(vd, nat, obligation)
    return vd.finish(evidence_from_native(nat, extra_assumptions))


# ------------------------------------------------------------------ mixed: Verus units + bounded natives

def run_units(vd, units):
    """Verify the given (unit, functions|None) list concurrently. Returns (covs, failed obligations)."""
    import concurrent.futures as cf
    from .. import common as C
    covs, failed = [], {}
    with cf.ThreadPoolExecutor(max_workers=max(1, len(units))) as pool:
        futs = [pool.submit(D.run_det_unit, C.Ctx(), u, set(f) if f else None) for (u, f) in units]
        for fut in futs:
            cov, f, undec = fut.result()
            covs.append(cov)
            failed.update(f)
            for u in undec:
                vd.add_undecided(u)
    return covs, failed


def mixed_evidence(ev, covs, bounded_part, trust, tier=None, units=None, vd=None):
    """Turn a bounded evidence record into a mixed one (level `other`): the Verus part is reported with its
    obligation counts, the bounded part keeps its own keys and its label."""
    from .. import common as C
    cov = ev["coverage"]
    m = D.merge_cov(covs)
    cov["obligations"] = m["obligations"]
    cov["discharged"] = m["discharged"]
    cov["solver_ms"] = m["solver_ms"]
    cov["backend"] = "Verus 0.2026.09.13 / Z3 for the obligations; the native harness (compiled real code) for the bounded part"
    cov["units"] = m["units"]
    cov["verus_checker_cmd"] = "; ".join(c.get("checker_cmd") or "" for c in covs)
    cov["functions_under_contract"] = sorted(set(sum([c.get("functions_under_contract", []) for c in covs], [])))
    cov["functions_bounded_only"] = list(bounded_part)
    cov["trusted_base"] = list(D.STANDING_TRUST) + list(trust)
    cov["explanation"] = ("mixed: %d Verus obligations over %d real functions (all inputs; units %s), plus the bounded executable-contract check "
                          "(counterexample engine for the functions under contract, stand-in -- labelled bounded, never counted in `discharged` -- for: %s)" % (
                              cov["obligations"], len(cov["functions_under_contract"]), ", ".join(c.get("unit", "?") for c in covs), "; ".join(bounded_part) or "nothing"))
    if tier == "thorough" and units:
        vac = []
        for unit, _f in units:
            pr = D.run_vacuity_probes(C.Ctx(), unit)
            vac.append(pr)
            if pr["vacuous"] and vd is not None:
                vd.add_undecided("vacuity: probes that should fail verify in unit %s: %s" % (unit, pr["vacuous"][:5]))
        cov["vacuity_probes"] = {"expected_to_fail": sum(p["expected"] for p in vac), "failed_as_expected": sum(p["failed_as_expected"] for p in vac),
                                 "per_unit": {p["unit"]: [p["expected"], p["failed_as_expected"]] for p in vac}}
    ev["level"] = "other" if cov["obligations"] > 0 else "exploration"
    ev["assumptions"] = list(ev.get("assumptions", [])) + ["Verus part: " + t for t in trust]
    return ev
