"""Generic wrapper for properties decided only by a bounded stand-in in the native harness.

Labelled `bounded` everywhere: level `exploration`, never counted as proved."""
from .. import driver as D


def evidence_from_native(nat, extra_assumptions=()):
    cov = {
        "evaluations": max(1, int(nat.get("evaluations", 0))),
        "distinct_nontrivial": int(nat.get("distinct_nontrivial", 0)),
        "rule": nat.get("rule", ""),
        "samples": nat.get("samples", []) or [{"note": "no sample recorded"}],
        "exhaustive": bool(nat.get("exhaustive", False)),
        "bound": nat.get("bound", ""),
        "checker_cmd": nat.get("cmd", ""),
        "bounded": True,
    }
    for k, v in nat.items():
        if k not in cov and k not in ("violations", "assumptions", "check", "cmd"):
            cov[k] = v
    return {"level": "exploration", "coverage": cov,
            "assumptions": ["BOUNDED stand-in (not a proof): only the generated cases were executed"] + list(nat.get("assumptions", [])) + list(extra_assumptions)}


def add_native_violations(vd, nat, obligation):
    for v in nat.get("violations", []):
        vd.add_violation(v["key"], v["what"], obligation=obligation, counterexample=v.get("replay"),
                         expected=v.get("expected"), actual=v.get("actual"))


def run_bounded(prop, native_check, tier, seed, obligation, extra_assumptions=(), extra_args=(), need_binary=False):
    vd = D.Verdict(prop, tier, seed)
    try:
        binary, _ = D.build_native()
    except D.BuildError as e:
        vd.add_undecided(str(e)[:800])
        return vd.finish({"level": "exploration", "coverage": {"evaluations": 1, "distinct_nontrivial": 2, "rule": "native harness did not build", "samples": ["-"]}})
    env = {}
    if need_binary:
        try:
            env["VXN_SOLSTAT_BIN"] = D.build_repo_binary()
        except D.BuildError as e:
            vd.add_undecided(str(e)[:800])
            return vd.finish({"level": "exploration", "coverage": {"evaluations": 1, "distinct_nontrivial": 2, "rule": "solstat binary did not build", "samples": ["-"]}})
    nat = D.run_native(binary, native_check, tier, seed, extra=extra_args, env=env)
    add_native_violations(vd, nat, obligation)
    return vd.finish(evidence_from_native(nat, extra_assumptions))
