"""Properties decided by Verus proofs over detector units plus the bounded native det checks.

PLAN[prop] = {
  "units": [(unit, [functions...])],         functions verified in this property's check
  "native": "c05",                           bounded check (counterexample engine + stand-in for `bounded_fns`)
  "bounded_fns": [...],                      detectors of this property that are NOT under a Verus contract (labelled bounded)
}
"""
import os

from .. import common as C, driver as D

E = "det_expr"

PLAN = {
    "C05": {
        "units": [(E, ["address_balance_optimization", "check_for_address_zero", "address_zero_optimization", "check_for_bool_equals_bool",
                       "bool_equals_bool_optimization", "assign_update_array_optimization", "cache_array_length_optimization",
                       "optimal_comparison_optimization", "number_literal_is_power_of_two", "check_if_inputs_are_power_of_two",
                       "shift_math_optimization", "solidity_keccak256_optimization", "solidity_math_optimization", "multiple_require_optimization"]),
                  ("det_incdec", None), ("pow2", None)],
        "native": "c05",
        "bounded_fns": ["number_literal_is_power_of_two (statements BEFORE its halving loop only: digit filtering / exponent handling / leading-zero removal with iterator adapters and str::parse; the halving loop itself is proved in unit pow2, and the callers are proved against an uninterpreted spec_pow2_literal)"],
    },
    "C07": {
        "units": [(E, ["unsafe_erc20_operation_vulnerability", "floating_pragma_vulnerability", "divide_before_multiply_vulnerability"]),
                  ("det_vuln", None)],
        "native": "c07",
        "bounded_fns": [],
    },
}

ALL_EXPR = PLAN["C05"]["units"][0][1] + PLAN["C07"]["units"][0][1]
PLAN["C05"]["units"][0] = (E, PLAN["C05"]["units"][0][1])
PLAN.update({
    "C06": {"units": [("det_decl", None)], "native": "c06", "bounded_fns": []},
    "C08": {"units": [("det_state", None)], "native": "c08", "bounded_fns": []},
    "C09": {"units": [("det_gate", None)], "native": "c09",
            "bounded_fns": ["get_solidity_version_from_source_unit (regex-based version extractor: run on the whole version domain by the native check)"]},
    "C04": {"units": [(E, ALL_EXPR), ("slots", None), ("det_decl", None), ("det_gate", None), ("det_vuln", None), ("det_state", None), ("det_incdec", None), ("pow2", None), ("lines", None),
                      ("dispatch", ["start", "end", "analyze_for_optimization", "analyze_for_vulnerability", "analyze_for_qa"])], "walker": True, "native": "c04", "native_profiles": ["release", "nochecks"],
            "bounded_fns": ["the two pieces of code reachable from analyze_for_* that are NOT under a Verus contract: the statements before the halving loop of number_literal_is_power_of_two, and get_solidity_version_from_source_unit with its regex helper get_solidity_major_minor_patch_version (all 30 detectors, proved or not, are run on the totality corpus in two build profiles)"]},
    "C19": {"units": [(E, ALL_EXPR), ("det_decl", None), ("det_vuln", None), ("det_incdec", None)], "native": "c19",
            "bounded_fns": ["detectors outside units det_expr / det_decl (whole file vs. all-but-one-item-blanked, bounded)"]},
})

DET_TRUST = [
    "walk_node_for_targets is used under the contract PROVED in unit ast (C01); here it is an external_body item carrying exactly that contract",
    "ASSUMED std contracts (assume_specification / axioms): String == &str / str / String compare the character sequences; &String == &str likewise; (String, String) equality is componentwise; str::contains / str::starts_with are uninterpreted predicates of (text, pattern); String::len is an uninterpreted byte length; HashSet<Loc> obeys the key model",
    "the result is stated over Loc values; the line reported for a Loc is C02's business",
]


def run(prop, tier, seed, extra_assumptions=()):
    plan = PLAN[prop]
    vd = D.Verdict(prop, tier, seed)
    ctx = C.Ctx()
    covs, failed = [], {}
    import concurrent.futures as cf

    def natives():
        nat = None
        for prof in plan.get("native_profiles", ["release"]):
            binary, _ = D.build_native(prof)
            n1 = D.run_native(binary, plan["native"], tier, seed)
            n1["profile"] = prof
            if nat is None:
                nat = n1
            else:
                nat["violations"] = nat.get("violations", []) + [dict(v, key=v["key"] + "@" + prof) for v in n1.get("violations", [])
                                                                 if v["key"] not in [x["key"] for x in nat.get("violations", [])]]
                nat["evaluations"] = nat.get("evaluations", 0) + n1.get("evaluations", 0)
                nat["profiles"] = nat.get("profiles", [nat.get("profile")]) + [prof]
        return nat

    pool = cf.ThreadPoolExecutor(max_workers=10)
    nat_future = pool.submit(natives) if plan.get("native") else None
    unit_futures = [pool.submit(D.run_det_unit, C.Ctx(), u, set(f) if f else None) for (u, f) in plan["units"]]
    for fut in unit_futures:
        cov, f, undec = fut.result()
        covs.append(cov)
        failed.update(f)
        for u in undec:
            vd.add_undecided(u)
    vac = []
    if tier == "thorough":
        for unit, _fns in plan["units"]:
            pr = D.run_vacuity_probes(ctx, unit)
            vac.append(pr)
            if pr["vacuous"]:
                vd.add_undecided("vacuity: probes that should fail verify in unit %s: %s (contradictory requires/invariant?)" % (unit, pr["vacuous"][:5]))
    if plan.get("walker"):
        # panic-freedom of the tree search itself: the C01 proof obligations (unwrap sites of the walker included)
        from . import c01 as C01
        try:
            wcov, wfailed, _jobs = C01.verus_part(ctx, tier, vd)
            wcov["unit"] = "ast"
            covs.append(wcov)
            failed.update(wfailed)
        except (C.LostAnchor, C.Unsupported) as e:
            vd.add_undecided("unit ast could not be assembled: %s" % e)
    nat = None
    if nat_future is not None:
        try:
            nat = nat_future.result()
        except D.BuildError as e:
            vd.add_undecided(str(e)[:600])
    pool.shutdown()
    if nat and any(v["key"] == "harness:not-implemented" for v in nat.get("violations", [])):
        nat = None   # bounded part not delivered yet: proofs only
    D.combine(vd, failed, nat, key_to_functions=key_to_functions)
    cov = D.merge_cov(covs)
    cov["checker_cmd"] = "; ".join(c.get("checker_cmd") or "" for c in covs)
    cov["functions_under_contract"] = sorted(set(sum([c.get("functions_under_contract", []) for c in covs], [])))
    cov["functions_bounded_only"] = plan.get("bounded_fns", [])
    cov["backend"] = "Verus 0.2026.09.13 / Z3 for the obligations; the native harness (compiled real code) for counterexamples and the bounded part"
    if vac:
        cov["vacuity_probes"] = {"expected_to_fail": sum(p["expected"] for p in vac), "failed_as_expected": sum(p["failed_as_expected"] for p in vac),
                                 "per_unit": {p["unit"]: [p["expected"], p["failed_as_expected"]] for p in vac}}
    assumptions = list(D.STANDING_TRUST) + DET_TRUST + list(extra_assumptions)
    if plan.get("bounded_fns"):
        assumptions.append("NOT under a Verus contract, decided only by the bounded native check (labelled bounded, never counted in `discharged`): " + ", ".join(plan["bounded_fns"]))
    cov["trusted_base"] = assumptions
    cov["explanation"] = ("mixed: %d Verus obligations over %d real functions (all inputs), plus a bounded executable-contract check of every detector of this property "
                          "on generated programs (counterexample engine for the proved ones, stand-in for: %s)" % (
                              cov["obligations"], len(cov["functions_under_contract"]), ", ".join(plan.get("bounded_fns", [])) or "none"))
    if nat:
        cov["bounded"] = {k: nat.get(k) for k in ("evaluations", "distinct_nontrivial", "rule", "bound", "wall_s", "exhaustive")}
        cov["samples"] = nat.get("samples", [])[:3] or [{"obligations": cov["units"][covs[0]["unit"]]["obligation_list"][:3]}]
        cov["evaluations"] = max(1, nat.get("evaluations", 0))
        cov["distinct_nontrivial"] = nat.get("distinct_nontrivial", 0)
        assumptions += nat.get("assumptions", [])
    level = "proof" if not plan.get("bounded_fns") else ("other" if cov["obligations"] > 0 else "exploration")
    if level == "exploration":
        cov["rule"] = (nat or {}).get("rule", "")
        cov["samples"] = (nat or {}).get("samples", []) or ["-"]
    return vd.finish({"level": level, "coverage": cov, "assumptions": assumptions})


def key_to_functions(key):
    """'c05:shift_math:...' -> names of the real functions that implement that detector"""
    parts = key.split(":")
    if len(parts) < 2:
        return None
    det = parts[1]
    m = {
        "shift_math": ["shift_math_optimization", "check_if_inputs_are_power_of_two", "number_literal_is_power_of_two"],
        "address_zero": ["address_zero_optimization", "check_for_address_zero"],
        "bool_equals_bool": ["bool_equals_bool_optimization", "check_for_bool_equals_bool"],
        "assign_update_array_value": ["assign_update_array_optimization"],
        "unsafe_erc20_operation": ["unsafe_erc20_operation_vulnerability"],
        "divide_before_multiply": ["divide_before_multiply_vulnerability"],
        "floating_pragma": ["floating_pragma_vulnerability"],
        "unprotected_selfdestruct": ["unprotected_selfdestruct_vulnerability"],
        "constructor_order": ["constructor_order_qa"],
    }
    return m.get(det, [det + "_optimization", det])
