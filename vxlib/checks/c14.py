"""C14 -- configuration selects exactly the named patterns and the named directory (bounded: name tables
in-process against the names scraped from the documents + the real binary over flag/toml/default combinations)."""
from . import bounded


def run(tier, seed):
    return bounded.run_bounded("C14", "c14", tier, seed,
                               "configuration contract: documented names <-> patterns; --path > toml path > ./contracts; unknown name fails before any report",
                               need_binary=True)
