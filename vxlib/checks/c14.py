"""C14 -- configuration selects exactly the named patterns and the named directory (mixed, mostly bounded).

Verus (unit dispatch): the default lists get_all_optimizations / get_all_vulnerabilities / get_all_qa contain EVERY variant of
their enum ("without a configuration file all patterns are analysed"), and analyze_for_* hands each pattern to the detector
documented for it (the variant -> detector table is written from the documentation, not read from the match).
Verus (unit names): str_to_optimization / str_to_vulnerability / str_to_qa return, for every name whose lower-cased form is a
documented name, the pattern documented under that name (table generated from the documentation); lemmas: every documented
name selects its own pattern (hence distinct names, distinct patterns), every pattern has a documented name.
Bounded: "an unknown name makes the run fail" (no must-panic postcondition in Verus), the casing semantics of
str::to_lowercase (uninterpreted `lower`), and Opts::new / main through the real binary over flag / toml / default combinations;
the in-process name-table check against the names scraped from the documents stays as the counterexample engine."""
from .. import driver as D
from . import bounded

UNITS = [("names", None), ("dispatch", ["get_all_optimizations", "get_all_vulnerabilities", "get_all_qa", "start", "end",
                       "analyze_for_optimization", "analyze_for_vulnerability", "analyze_for_qa"])]
TRUST = [
    "unit names: str::to_lowercase is an uninterpreted function `lower` of the character sequence; two str values with equal character sequences are equal (axiom_str_ext); the name -> pattern table is generated from the documentation table in contracts/dispatch.py",
    "in unit dispatch the detectors are external_body stubs `r@ == spec_<fn>(source_unit)`; that <fn> is the detector of the documented pattern is checked by name: the function must be defined in the module file named after the pattern",
    "solang_parser::parse is a partial function of (text, file number)",
]
BOUNDED_PART = ["the `unknown name => failure` clause of str_to_* (Verus cannot state must-panic) and the casing behaviour of str::to_lowercase",
                "Opts::new, main (clap, toml, process exit): exercised through the built binary"]


def key_to_functions(key):
    if "default" in key or "get_all" in key:
        return ["get_all_optimizations", "get_all_vulnerabilities", "get_all_qa"]
    if any(k in key for k in ("name", "variant", "collide")):
        return ["str_to_optimization", "str_to_vulnerability", "str_to_qa"]
    return []


def run(tier, seed):
    vd = D.Verdict("C14", tier, seed)
    covs, failed = bounded.run_units(vd, UNITS)
    try:
        try:
            binary, _ = D.build_native()
        except D.BuildError:
            # the part that drives the built binary does not need the rest of the harness
            binary, _ = D.build_native(binonly=True)
        env = {"VXN_SOLSTAT_BIN": D.build_repo_binary()}
    except D.BuildError as e:
        vd.add_undecided(str(e)[:800])
        return vd.finish({"level": "exploration", "coverage": {"evaluations": 1, "distinct_nontrivial": 2, "rule": "harness / binary did not build", "samples": ["-"]}})
    nat = D.run_native(binary, "c14", tier, seed, env=env)
    D.combine(vd, failed, nat, key_to_functions=key_to_functions)
    ev = bounded.evidence_from_native(nat, [])
    return vd.finish(bounded.mixed_evidence(ev, covs, BOUNDED_PART, TRUST, tier, UNITS, vd))
