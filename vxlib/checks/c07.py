from . import _detprops


def run(tier, seed):
    return _detprops.run("C07", tier, seed)
