"""C18 -- a run only reads its inputs and writes one report file (bounded: before/after snapshots around the real binary)."""
from . import bounded


def run(tier, seed):
    return bounded.run_bounded("C18", "c18", tier, seed,
                               "frame contract of a run: modifies exactly ./solstat_report.md, by replacement",
                               need_binary=True)
