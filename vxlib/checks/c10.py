"""C10 -- packing suggestions are sound w.r.t. the storage-slot model: proof (Verus) of the real
get_type_size, storage_slots_used, struct_can_be_packed and both pack_* detectors + 3 property lemmas;
bounded native search (exhaustive slot counter up to a stated length) as counterexample engine."""
from .. import common as C, driver as D


def run(tier, seed):
    vd = D.Verdict("C10", tier, seed)
    ctx = C.Ctx()
    cov, failed, undec = D.run_det_unit(ctx, "slots")
    for u in undec:
        vd.add_undecided(u)
    if tier == "thorough":
        pr = D.run_vacuity_probes(ctx, "slots")
        cov["vacuity_probes"] = {"expected_to_fail": pr["expected"], "failed_as_expected": pr["failed_as_expected"]}
        if pr["vacuous"]:
            vd.add_undecided("vacuity: probes that should fail verify: %s" % pr["vacuous"][:5])
    nat = None
    try:
        binary, _ = D.build_native()
        nat = D.run_native(binary, "c10", tier, seed)
    except D.BuildError as e:
        vd.add_undecided(str(e)[:600])
    D.combine(vd, failed, nat)
    assumptions = list(D.STANDING_TRUST) + [
        "ASSUMED about the parser (requires-clauses wf_type_expr / wf_struct_node / wf_contract_node): intN/uintN have 8 <= N <= 256, bytesN has 1 <= N <= 32, fewer than 2^32 members; checked on every program the native harness parses (bounded)",
        "TRUSTED contract of slice::sort (ascending permutation w.r.t. Ord; numeric order for u16), of ContractDefinition::clone (equal value), of the walker (proved in unit ast, see C01)",
        "HashSet<Loc> key model (axiom_loc_key_model)",
    ]
    cov["trusted_base"] = assumptions
    cov["backend"] = "Verus 0.2026.09.13 / Z3"
    if nat:
        cov["bounded_counterexample_search"] = {k: nat.get(k) for k in ("evaluations", "distinct_nontrivial", "rule", "bound", "wall_s")}
        cov["samples"] = nat.get("samples", [])[:3]
        cov["evaluations"] = nat.get("evaluations", 0)
        cov["distinct_nontrivial"] = nat.get("distinct_nontrivial", 0)
    return vd.finish({"level": "proof", "coverage": cov, "assumptions": assumptions})
