"""Run Verus on an assembled unit and turn its answer into named obligations."""
import json
import os
import re
import subprocess
import time

DEFINITE = ("assertion failed", "postcondition not satisfied", "precondition not satisfied",
            "possible arithmetic underflow/overflow", "invariant not satisfied",
            "possible division by zero", "decreases not satisfied", "possible bit shift underflow/overflow",
            "unreachable", "index out of bounds", "recommendation not met")

_err_head = re.compile(r"^(error|warning|note)(\[[A-Z0-9]+\])?: (.*)$")
_err_loc = re.compile(r"^\s*--> (.*?):(\d+):(\d+)\s*$")


def parse_diagnostics(stderr):
    """rustc-style text diagnostics -> list of {level, msg, file, line, col, text}"""
    out = []
    cur = None
    for ln in stderr.splitlines():
        m = _err_head.match(ln)
        if m:
            cur = {"level": m.group(1), "msg": m.group(3), "file": None, "line": None, "col": None, "text": ln + "\n", "spans": []}
            out.append(cur)
            continue
        if cur is None:
            continue
        cur["text"] += ln + "\n"
        m = _err_loc.match(ln)
        if m:
            if cur["line"] is None:
                cur["file"], cur["line"], cur["col"] = m.group(1), int(m.group(2)), int(m.group(3))
        # secondary labelled spans: " 123 |   foo" lines followed by carets are not needed
    return out


def run(path, extra=(), rlimit=None, timeout=1800, threads=None):
    cmd = ["verus", path, "--output-json", "--time"]
    if "--multiple-errors" not in list(extra):
        cmd += ["--multiple-errors", "8"]
    if rlimit:
        cmd += ["--rlimit", str(rlimit)]
    if threads:
        cmd += ["--num-threads", str(threads)]
    cmd += list(extra)
    t0 = time.time()
    try:
        p = subprocess.run(cmd, capture_output=True, text=True, timeout=timeout)
        out, err, rc = p.stdout, p.stderr, p.returncode
        timed_out = False
    except subprocess.TimeoutExpired as e:
        out = (e.stdout or b"").decode() if isinstance(e.stdout, bytes) else (e.stdout or "")
        err = (e.stderr or b"").decode() if isinstance(e.stderr, bytes) else (e.stderr or "")
        rc, timed_out = -9, True
    wall = time.time() - t0
    js = None
    try:
        i = out.index("{")
        js = json.loads(out[i:])
    except Exception:
        js = None
    diags = parse_diagnostics(err)
    errors = [d for d in diags if d["level"] == "error" and not d["msg"].startswith("aborting due to")]
    res = {"cmd": " ".join(cmd), "rc": rc, "wall_s": round(wall, 2), "timed_out": timed_out, "json": js,
           "errors": errors, "stderr_tail": err[-4000:]}
    if js:
        vr = js.get("verification-results", {})
        res["verified"] = vr.get("verified")
        res["n_errors"] = vr.get("errors")
        res["success"] = (vr.get("success") if "success" in vr else
                          (not vr.get("encountered-error") and not vr.get("encountered-vir-error") and vr.get("errors") == 0)) and rc == 0
        res["vir_error"] = vr.get("encountered-vir-error")
        tm = js.get("times-ms", {})
        res["smt_ms"] = tm.get("smt", {}).get("total")
        res["total_ms"] = tm.get("total")
        fb = []
        for mod in tm.get("smt", {}).get("smt-run-module-times", []):
            for f in mod.get("function-breakdown", []):
                fb.append({"function": f["function"], "mode": f.get("mode:"), "ms": f["time"], "rlimit": f["rlimit"], "success": f["success"]})
        res["functions"] = fb
    else:
        res["success"] = False
        res["verified"] = None
        res["functions"] = []
    return res


def classify(err):
    """definite | rlimit | tool"""
    m = err["msg"]
    if "rlimit" in m or "Resource limit" in m or "resource limit" in m:
        return "rlimit"
    for d in DEFINITE:
        if d in m:
            return "definite"
    return "tool"
