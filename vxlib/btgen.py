"""Generated structural lemma (PROVED by Verus, not trusted): below a top-level item no node is a
SourceUnit or SourceUnitPart node.  Needed to discharge `node.contract_part().unwrap()` after a
contract has been searched for FunctionDefinition nodes (payable_function, unprotected_selfdestruct, ...).

Generated from the parse-tree type table with the same traversal as the all_nodes spec, so the proof
structure always mirrors the spec structure."""
from .ptspec import NODE_TYPES

HEAD = """
// ---------------------------------------------------------------- generated structural lemma (PROVED)
pub open spec fn below_top(n: Node) -> bool { !(n is SourceUnit) && !(n is SourceUnitPart) }
pub open spec fn all_below(s: Seq<Node>) -> bool { forall|i: int| 0 <= i < s.len() ==> below_top(#[trigger] s[i]) }
pub broadcast proof fn lemma_all_below_add(a: Seq<Node>, b: Seq<Node>)
    requires all_below(a), all_below(b)
    ensures #[trigger] all_below(a + b)
{
    assert forall|i: int| 0 <= i < (a + b).len() implies below_top(#[trigger] (a + b)[i]) by {
        if i < a.len() { assert((a + b)[i] == a[i]); } else { assert((a + b)[i] == b[i - a.len()]); }
    }
}
pub proof fn lemma_all_below_empty() ensures all_below(Seq::<Node>::empty()) {}
"""


class BelowTopGen:
    def __init__(self, tt):
        self.tt = tt
        self.cnt = 0
        self.vec_helpers = {}

    def stmts(self, v, t, ind):
        tt = self.tt
        pad = " " * ind
        if not tt.t_carrier(t):
            return []
        t = tt.resolve(t)
        if t[0] == "tuple":
            out = []
            for i, e in enumerate(t[1]):
                out += self.stmts("%s.%d" % (v, i), e, ind)
            return out
        name, args = t[1], t[2]
        if name == "Box":
            return self.stmts("(*%s)" % v, args[0], ind)
        if name == "Option":
            self.cnt += 1
            o = "o%d" % self.cnt
            inner = self.stmts(o, args[0], ind + 4)
            return ["%smatch %s { Some(%s) => {" % (pad, v, o)] + inner + ["%s} None => {} }" % pad]
        if name == "Vec":
            h = tt.mangle(args[0])
            self.vec_helpers.setdefault(h, args[0])
            return ["%slemma_bt_vec_%s(%s@, %s@.len() as int);" % (pad, h, v, v)]
        if name in NODE_TYPES:
            return ["%slemma_bt_%s(%s);" % (pad, name, v)]
        d = tt.types[name]
        if d[0] == "struct":
            out = []
            for f, ft in d[2]:
                out += self.stmts("%s.%s" % (v, f), ft, ind)
            return out
        return self.enum_match(v, name, ind)

    def enum_match(self, v, n, ind):
        d = self.tt.types[n]
        pad = " " * ind
        self.cnt += 1
        u = self.cnt
        lines = ["%smatch %s {" % (pad, v)]
        for vn, kind, fs in d[1]:
            if kind == "unit":
                lines.append("%s    pt::%s::%s => {}" % (pad, n, vn))
                continue
            if kind == "tuple":
                binds = ["g%d_%d" % (u, i) for i, _ in enumerate(fs)]
                pat = "(" + ", ".join(binds) + ")"
                body = []
                for b, (_, t) in zip(binds, fs):
                    body += self.stmts(b, t, ind + 8)
            else:
                pat = "{ " + ", ".join("%s: g%d_%s" % (f, u, f) for f, _ in fs) + " }"
                body = []
                for f, t in fs:
                    body += self.stmts("g%d_%s" % (u, f), t, ind + 8)
            lines.append("%s    pt::%s::%s%s => {" % (pad, n, vn, pat))
            lines += body
            lines.append("%s    }" % pad)
        lines.append("%s}" % pad)
        return lines

    def text(self):
        tt = self.tt
        out = [HEAD]
        for n in ["ContractPart", "Statement", "Expression"]:
            body = self.enum_match("x", n, 4)
            out.append(
                "pub proof fn lemma_bt_%s(x: pt::%s)\n    ensures all_below(an_%s(x))\n    decreases x\n{\n"
                "    broadcast use lemma_all_below_add;\n    lemma_all_below_empty();\n"
                "    assert(all_below(seq![Node::%s(x)]));\n%s\n}\n" % (n, n, n, n, "\n".join(body)))
        sup = self.enum_match("x", "SourceUnitPart", 4)
        done = set()
        while True:
            todo = [h for h in self.vec_helpers if h not in done]
            if not todo:
                break
            for h in todo:
                done.add(h)
                et = self.vec_helpers[h]
                body = self.stmts("s[n - 1]", et, 8)
                out.append(
                    "pub proof fn lemma_bt_vec_%s(s: Seq<%s>, n: int)\n    ensures all_below(an_vec_%s(s, n))\n    decreases s, n\n{\n"
                    "    broadcast use lemma_all_below_add;\n    lemma_all_below_empty();\n"
                    "    if 0 < n <= s.len() {\n        lemma_bt_vec_%s(s, n - 1);\n%s\n    }\n}\n" % (
                        h, tt.rust_ty(et), h, h, "\n".join(body)))
        out.append(
            "/// every node strictly below a top-level item is neither a SourceUnit nor a SourceUnitPart node\n"
            "pub proof fn lemma_bt_SourceUnitPart(x: pt::SourceUnitPart)\n"
            "    ensures all_below(an_SourceUnitPart(x).subrange(1, an_SourceUnitPart(x).len() as int))\n{\n"
            "    broadcast use lemma_all_below_add;\n    lemma_all_below_empty();\n%s\n}\n" % "\n".join(sup))
        return "\n".join(out)
