"""Units for detector-level functions: the `ast` items (walker under its PROVED contract as
external_body, everything else with real bodies), assumed std contracts, per-unit spec text from
/verif/contracts/<unit>.rs, and the real detector functions with contracts / loop invariants spliced in.

Annotation tables live in /verif/contracts/<unit>.py (pure data): per function
  rel        file under /repo
  contract   requires/ensures text
  start      ghost text inserted at the start of the body (optional)
  loops      list of {match: regex on the iterated expression, nth: k (optional), pre, inv, body}
             -> `pre` ghost statements before the loop, `inv` invariant clauses, `body` ghost text at body start
  after      list of {match: regex on a statement's text, text: ghost text inserted after that statement}
  attrs      extra attributes (e.g. external_body)
"""
import importlib.util
import os
import re

from . import rs, unit as U, common as C, unit_ast as A

STD_SPECS = r"""
// ---------------------------------------------------------------- assumed contracts of std (TRUSTED, listed in evidence)
pub assume_specification<'x>[ <String as PartialEq<&str>>::eq ](a: &String, b: &&str) -> (r: bool) ensures r == (a@ == b@);
pub assume_specification[ <String as PartialEq<str>>::eq ](a: &String, b: &str) -> (r: bool) ensures r == (a@ == b@);
// `&String == &str` goes through the blanket `&A == &B` impl, whose vstd spec refers to PartialEqSpec<str> for String
#[verifier::external_body]
pub proof fn axiom_string_str_eq()
    ensures
        <String as vstd::std_specs::cmp::PartialEqSpec<str>>::obeys_eq_spec(),
        forall|a: String, b: &str| #[trigger] <String as vstd::std_specs::cmp::PartialEqSpec<str>>::eq_spec(&a, b) == (a@ == b@),
{}
// equality of pairs (the derived tuple PartialEq): componentwise; instantiated for (String, String)
pub uninterp spec fn tup_eq<A, B>(a: (A, B), b: (A, B)) -> bool;
pub assume_specification<A: PartialEq, B: PartialEq>[ <(A, B) as PartialEq>::eq ](a: &(A, B), b: &(A, B)) -> (r: bool)
    ensures r == tup_eq::<A, B>(*a, *b);
#[verifier::external_body]
pub proof fn axiom_tup_eq_strings()
    ensures forall|a: (String, String), b: (String, String)| #[trigger] tup_eq::<String, String>(a, b) == (a.0@ == b.0@ && a.1@ == b.1@)
{}
pub uninterp spec fn sp_contains<P>(s: Seq<char>, p: P) -> bool;
pub uninterp spec fn sp_starts_with<P>(s: Seq<char>, p: P) -> bool;
pub assume_specification<P: core::str::pattern::Pattern> [str::contains::<P>] (_0: &str, _1: P) -> (r: bool)
    ensures r == sp_contains::<P>(_0@, _1);
pub assume_specification<P: core::str::pattern::Pattern> [str::starts_with::<P>] (_0: &str, _1: P) -> (r: bool)
    ensures r == sp_starts_with::<P>(_0@, _1);
// byte length of a string (UTF-8); the spec side is an uninterpreted function of the character sequence
pub uninterp spec fn sp_byte_len(s: Seq<char>) -> nat;
pub assume_specification [std::string::String::len] (_0: &std::string::String) -> (r: usize)
    ensures r == sp_byte_len(_0@);
// TRUSTED: the derived Eq/Hash of pt::Loc (plain integers) obey the HashSet key model.
#[verifier::external_body]
pub proof fn axiom_loc_key_model()
    ensures vstd::std_specs::hash::obeys_key_model::<pt::Loc>()
{}
// Loc::start(): the one accessor of pt.rs that solstat's callers use (dropped impl, re-admitted with its contract)
pub open spec fn loc_start(l: pt::Loc) -> int {
    match l { pt::Loc::File(_, s, _) => s as int, _ => -1 }
}
"""

HITS_SPEC = r"""
// ---------------------------------------------------------------- generic "hits" fold (DESIGN 4.2)
pub open spec fn hits(w: Seq<Node>, k: int, pat: spec_fn(Node) -> bool, loc: spec_fn(Node) -> pt::Loc) -> Set<pt::Loc>
    decreases k
{
    if 0 < k <= w.len() {
        if pat(w[k - 1]) { hits(w, k - 1, pat, loc).insert(loc(w[k - 1])) } else { hits(w, k - 1, pat, loc) }
    } else { Set::<pt::Loc>::empty() }
}
pub open spec fn hits_all(w: Seq<Node>, pat: spec_fn(Node) -> bool, loc: spec_fn(Node) -> pt::Loc) -> Set<pt::Loc> {
    hits(w, w.len() as int, pat, loc)
}
/// membership characterisation: l is reported iff some node of w matches and has that location
pub proof fn lemma_hits_contains(w: Seq<Node>, k: int, pat: spec_fn(Node) -> bool, loc: spec_fn(Node) -> pt::Loc, l: pt::Loc)
    requires 0 <= k <= w.len()
    ensures hits(w, k, pat, loc).contains(l) <==> (exists|i: int| 0 <= i < k && pat(#[trigger] w[i]) && loc(w[i]) == l)
    decreases k
{
    if k > 0 {
        lemma_hits_contains(w, k - 1, pat, loc, l);
        if pat(w[k - 1]) && loc(w[k - 1]) == l { }
    }
}
/// C19 (composition): hits distributes over concatenation
pub proof fn lemma_hits_concat(a: Seq<Node>, b: Seq<Node>, k: int, pat: spec_fn(Node) -> bool, loc: spec_fn(Node) -> pt::Loc)
    requires 0 <= k <= b.len()
    ensures hits(a + b, a.len() + k, pat, loc) =~= hits_all(a, pat, loc).union(hits(b, k, pat, loc))
    decreases k
{
    if k > 0 {
        lemma_hits_concat(a, b, k - 1, pat, loc);
        assert((a + b)[a.len() + k - 1] == b[k - 1]);
    } else {
        assert forall|j: int| 0 <= j <= a.len() implies #[trigger] hits(a + b, j, pat, loc) =~= hits(a, j, pat, loc) by {
            lemma_hits_prefix(a, b, j, pat, loc);
        }
    }
}
pub proof fn lemma_hits_prefix(a: Seq<Node>, b: Seq<Node>, j: int, pat: spec_fn(Node) -> bool, loc: spec_fn(Node) -> pt::Loc)
    requires 0 <= j <= a.len()
    ensures hits(a + b, j, pat, loc) =~= hits(a, j, pat, loc)
    decreases j
{
    if j > 0 {
        lemma_hits_prefix(a, b, j - 1, pat, loc);
        assert((a + b)[j - 1] == a[j - 1]);
    }
}
/// C19, stated over the spec: for a detector in hits-form the findings of a file are the union of the findings of its
/// top-level items (the SourceUnit node itself has kind SourceUnit and is never a pattern node when SourceUnit is not wanted)
pub open spec fn hits_of_parts(t: Set<Target>, parts: Seq<pt::SourceUnitPart>, k: int, pat: spec_fn(Node) -> bool, loc: spec_fn(Node) -> pt::Loc) -> Set<pt::Loc>
    decreases k
{
    if 0 < k <= parts.len() {
        hits_of_parts(t, parts, k - 1, pat, loc).union(hits_all(flt(t, all_nodes(Node::SourceUnitPart(parts[k - 1]))), pat, loc))
    } else { Set::<pt::Loc>::empty() }
}
pub proof fn lemma_c19_parts(t: Set<Target>, parts: Seq<pt::SourceUnitPart>, k: int, pat: spec_fn(Node) -> bool, loc: spec_fn(Node) -> pt::Loc)
    requires 0 <= k <= parts.len()
    ensures hits_all(flt(t, an_vec_SourceUnitPart(parts, k)), pat, loc) =~= hits_of_parts(t, parts, k, pat, loc)
    decreases k
{
    broadcast use lemma_flt_add, lemma_flt_empty;
    if k > 0 {
        lemma_c19_parts(t, parts, k - 1, pat, loc);
        let a = flt(t, an_vec_SourceUnitPart(parts, k - 1));
        let b = flt(t, an_SourceUnitPart(parts[k - 1]));
        assert(an_vec_SourceUnitPart(parts, k) == an_vec_SourceUnitPart(parts, k - 1) + an_SourceUnitPart(parts[k - 1]));
        assert(flt(t, an_vec_SourceUnitPart(parts, k)) == a + b);
        lemma_hits_concat(a, b, b.len() as int, pat, loc);
        assert(all_nodes(Node::SourceUnitPart(parts[k - 1])) == an_SourceUnitPart(parts[k - 1]));
    } else {
        assert(flt(t, an_vec_SourceUnitPart(parts, 0)) =~= Seq::<Node>::empty());
    }
}
pub proof fn lemma_c19_file(t: Set<Target>, su: pt::SourceUnit, pat: spec_fn(Node) -> bool, loc: spec_fn(Node) -> pt::Loc)
    requires !t.contains(Target::SourceUnit)
    ensures hits_all(spec_walk(t, Node::SourceUnit(su)), pat, loc) =~= hits_of_parts(t, su.0@, su.0@.len() as int, pat, loc)
{
    broadcast use lemma_flt_add, lemma_flt_one, lemma_flt_empty;
    let parts = su.0@;
    lemma_c19_parts(t, parts, parts.len() as int, pat, loc);
    assert(all_nodes(Node::SourceUnit(su)) == seq![Node::SourceUnit(su)] + an_vec_SourceUnitPart(parts, parts.len() as int));
    assert(flt(t, seq![Node::SourceUnit(su)]) =~= Seq::<Node>::empty());
    assert(spec_walk(t, Node::SourceUnit(su)) =~= flt(t, an_vec_SourceUnitPart(parts, parts.len() as int)));
}
/// every element of a filtered sequence satisfies the filter (used for the unwrap() sites of detectors)
pub proof fn lemma_flt_wanted(t: Set<Target>, s: Seq<Node>, i: int)
    requires 0 <= i < flt(t, s).len()
    ensures wanted(t, flt(t, s)[i])
{
    let p = |m: Node| wanted(t, m);
    s.lemma_filter_pred(p, i);
    assert(p(s.filter(p)[i]));
}
"""


def load_table(unit_name):
    path = os.path.join(C.VERIF, "contracts", unit_name + ".py")
    spec = importlib.util.spec_from_file_location("contracts_" + unit_name, path)
    mod = importlib.util.module_from_spec(spec)
    spec.loader.exec_module(mod)
    return mod


def spec_text(unit_name):
    """contracts/<unit>.rs, preceded by the shared spec files named in the table's INCLUDES"""
    out = ""
    tab_path = os.path.join(C.VERIF, "contracts", unit_name + ".py")
    if os.path.exists(tab_path):
        for inc in getattr(load_table(unit_name), "INCLUDES", []):
            out += open(os.path.join(C.VERIF, "contracts", inc + ".rs")).read() + "\n"
    path = os.path.join(C.VERIF, "contracts", unit_name + ".rs")
    return out + (open(path).read() if os.path.exists(path) else "")


def statements_of(fn, lo, hi):
    """top-level statements of a token range: list of (first_tok_idx, last_tok_idx)"""
    ts = fn.toks
    out = []
    i = lo
    start = None
    while i < hi:
        t = ts[i]
        if start is None:
            start = i
        if t.kind == "punct" and t.text in ("(", "[", "{"):
            c = rs.match_close(ts, i)
            if t.text == "{":
                # block-like statement ends at '}' unless followed by something that continues the expression
                nxt = ts[c + 1].text if c + 1 < hi else None
                if nxt not in (".", "?", ";", "else", ")", ",") and not (nxt is not None and ts[start].text == "let"):
                    if nxt == "else":
                        i = c + 1
                        continue
                    out.append((start, c))
                    start = None
                    i = c + 1
                    continue
            i = c + 1
            continue
        if t.kind == "punct" and t.text == ";":
            out.append((start, i))
            start = None
        i += 1
    if start is not None and start < hi:
        out.append((start, hi - 1))
    return out


def all_statements(fn):
    """every statement at any nesting depth (pre-order)"""
    ts = fn.toks
    res = []

    def rec(lo, hi):
        for (a, b) in statements_of(fn, lo, hi):
            res.append((a, b))
            # recurse into braces inside the statement
            i = a
            while i <= b:
                if ts[i].text == "{":
                    c = rs.match_close(ts, i)
                    rec(i + 1, c)
                    i = c + 1
                else:
                    i += 1
    rec(fn.body_open + 1, fn.body_close)
    return res


_EXTRACT_RE = re.compile(r"^let\s+(?:mut\s+)?([A-Za-z_][A-Za-z0-9_]*)\s*(?::[^=]*)?=\s*(?:ast::)?(?:extract_target_from_node|extract_targets_from_node|walk_node_for_targets)\s*\(", re.S)


def role_names(fn):
    """Names that the contract tables refer to by ROLE instead of by spelling, so that renaming a local
    does not lose the anchors:  $ret = the identifier returned at the end of the function,
    $x0, $x1, ... = the variables bound (in source order) by `let v = extract_target(s)_from_node(..)`."""
    ts = fn.toks
    names = {}
    t = ts[fn.body_close - 1]
    if t.kind == "ident":
        names["$ret"] = t.text
    elif t.text == ";" and ts[fn.body_close - 2].kind == "ident" and ts[fn.body_close - 3].text == "return":
        names["$ret"] = ts[fn.body_close - 2].text
    k = 0
    stmts = {}
    for (x, y) in all_statements(fn):
        text = fn.src[ts[x].start:ts[y].end]
        m = _EXTRACT_RE.match(text)
        if m and (x, y) not in stmts:
            names["$x%d" % k] = m.group(1)
            stmts["@x%d" % k] = (x, y)
            k += 1
    return names, stmts


def _subst(obj, names):
    if isinstance(obj, str):
        for k in sorted(names, key=len, reverse=True):
            obj = obj.replace(k, names[k])
        return obj
    if isinstance(obj, list):
        return [_subst(o, names) for o in obj]
    if isinstance(obj, dict):
        return {k: _subst(v, names) for k, v in obj.items()}
    return obj


def annotate_fn(sp, fn, spec, obligations, prefix, probe=None):
    ts = fn.toks
    skip_probe = spec.get("drop_body") or "#[verifier::external_body]" in spec.get("attrs", [])
    if skip_probe:
        probe = None
    # vacuity probes: an `assert(false)` that MUST fail. probe = {"which": "start" | <loop ordinal>, "tags": [...]}
    # (one probe per function and variant: a failed assert is assumed afterwards and would mask later probes)
    if probe is not None and probe["which"] == "start":
        if not spec.get("tail_from"):
            sp.after_tok(ts[fn.body_open], " assert(false); ", "probe:start:%s" % prefix)
            probe["tags"].append("probe:start:%s" % prefix)
    names, bind_stmts = role_names(fn)
    need = set(re.findall(r"\$(?:ret|x\d+)", repr(spec)))
    missing = [n for n in need if n not in names]
    if missing:
        raise C.LostAnchor("%s: cannot resolve %s (no such extract binding / tail identifier)" % (fn.name, ", ".join(sorted(missing))))
    spec = _subst(spec, names)
    tf = spec.get("tail_from")
    if tf:
        # R6 (tail extraction): the statements of the body from the first top-level statement matching tf["match"]
        # to the end become a function of their own; everything before (signature + prefix statements) is replaced by
        # tf["header"] (a new signature over the variables live at that point, with the contract). The kept statements
        # are copied verbatim; rustc rejects the unit (tool error, never an alarm) if they use anything not in the header.
        hit = None
        for (x, y) in statements_of(fn, fn.body_open + 1, fn.body_close):
            if re.search(tf["match"], fn.src[ts[x].start:ts[y].end]):
                hit = (x, y)
                break
        if hit is None:
            raise C.LostAnchor("%s: no top-level statement matching /%s/ (tail extraction)" % (fn.name, tf["match"]))
        head = tf["header"].rstrip() + "\n"
        if spec.get("start"):
            head += spec["start"].rstrip() + "\n"
        sp.rewrite(fn.start, ts[hit[0]].start, head, "ob:post:%s" % prefix)
        if probe is not None and probe["which"] == "start":
            sp.before_tok(ts[hit[0]], " assert(false); ", "probe:start:%s" % prefix)
            probe["tags"].append("probe:start:%s" % prefix)
        obligations.append(("post:%s" % prefix, "tail of %s from `%s`: %s" % (fn.name, tf["match"], " ".join(tf["header"].split())[:260])))
        spec = dict(spec)
        spec.pop("start", None)
        spec.pop("contract", None)
        spec["attrs"] = []
    for a in spec.get("attrs", []):
        U.add_attr(sp, a, "attr:" + a.strip("#[]").split("::")[-1])
    if spec.get("contract"):
        U.add_contract(sp, spec["contract"], spec.get("ret", "r"))
        obligations.append(("post:%s" % prefix, " ".join(spec["contract"].split())[:300]))
    if spec.get("drop_body"):
        # the body cannot be compiled in a single-file unit (external crates): only the signature + contract is kept
        sp.rewrite(ts[fn.body_open].start, ts[fn.body_close].end, "{ unimplemented!() }", "body-dropped:%s" % fn.name)
        return
    if spec.get("start"):
        U.body_insert_start(sp, spec["start"], "ghost:start")
    loops = U.find_for_loops(fn)
    used = set()
    for li, l in enumerate(spec.get("loops", [])):
        cands = [k for k, lp in enumerate(loops) if re.search(l["match"], lp["expr"]) and k not in used]
        if "nth" in l:
            cands = cands[l["nth"]:l["nth"] + 1]
        if not cands:
            raise C.LostAnchor("%s: no for-loop over /%s/" % (fn.name, l["match"]))
        k = cands[0]
        used.add(k)
        lp = loops[k]
        binder = l.get("binder", "it%d" % li)
        first = ts[lp["for"]] if lp["label"] is None else lp["label"]
        if probe is not None and probe["which"] == li:
            sp.after_tok(ts[lp["close"]], " assert(false); ", "probe:after-loop:%s.%d" % (prefix, li))
            probe["tags"].append("probe:after-loop:%s.%d" % (prefix, li))
        if l.get("r5"):
            # R5: `for PAT in EXPR { BODY }` -> the Rust Reference's own definition of `for`
            #     let mut it = IntoIterator::into_iter(EXPR); loop { match it.next() { Some(PAT) => { BODY } None => break } }
            b = binder
            seq = l.get("seq", "(%s)@" % lp["expr"])
            sub = lambda t: t.replace("$k", b + "_k").replace("$s", b + "_s").replace("$it", b)
            head = ""
            if l.get("pre"):
                head += l["pre"].strip() + "\n"
            rem = l.get("rem")   # name of the uninterpreted `remaining` function of a trusted iterator model (hm_rem / hs_rem)
            if rem:
                head += "let mut %s = %s(%s);\n" % (b, l.get("into_iter", "vx_into_iter_hm"), lp["expr"])
                head += "let ghost %s_s = %s(%s);\n" % (b, rem, b)
            else:
                head += "let ghost %s_s = %s;\n" % (b, seq)
                head += "let mut %s = (%s).into_iter();\n" % (b, lp["expr"])
            head += "let ghost mut %s_k: int = 0;\n" % b
            label = (fn.src[lp["label"].start:lp["label"].end] + ": ") if lp["label"] is not None else ""
            remaining = ("%s(%s)" % (rem, b)) if rem else ("%s.remaining()" % b)
            inv = "0 <= %s_k <= %s_s.len(), %s == %s_s.subrange(%s_k, %s_s.len() as int)" % (b, b, remaining, b, b, b)
            if l.get("inv"):
                inv += ",\n        " + sub(l["inv"].strip().rstrip(","))
            ens = "%s_k == %s_s.len()" % (b, b)
            if l.get("ensures"):
                ens += ", " + sub(l["ensures"].strip().rstrip(","))
            head += "%sloop\n    invariant %s,\n    ensures %s,\n    decreases %s_s.len() - %s_k,\n" % (label, inv, ens, b, b)
            sp.rewrite(first.start, ts[lp["open"]].start, head, "R5:%s.loop%d" % (prefix, li))
            sp.after_tok(ts[lp["open"]], " match %s.next() { Some(%s) => { proof { %s_k = %s_k + 1; } %s " % (
                b, lp["pat"], b, b, sub(l.get("body", "").strip())), "R5:open")
            sp.before_tok(ts[lp["close"]], " } None => break, } ", "R5:close")
            obligations.append(("inv:%s.loop%d" % (prefix, li), "R5-desugared loop over `%s`: %s" % (lp["expr"], " ".join(inv.split())[:200])))
            if l.get("after"):
                sp.after_tok(ts[lp["close"]], "\n" + sub(l["after"].strip()) + "\n", "ghost:after-loop")
            continue
        if U.contains_continue(fn, lp["open"] + 1, lp["close"]) and not l.get("allow_continue"):
            raise C.Unsupported("%s: `continue` inside for loop over %s (needs the R5 desugaring)" % (fn.name, lp["expr"]))
        if l.get("pre"):
            sp.before_tok(first, l["pre"].strip() + "\n", "ghost:pre-loop")
        sp.before_tok(ts[lp["in"] + 1], "%s: " % binder, "loop:binder")
        if l.get("inv"):
            sp.before_tok(ts[lp["open"]], "\n    invariant\n        %s\n" % l["inv"].strip().rstrip(",").replace("$it", binder) + ",\n",
                          "ob:inv:%s.loop%d" % (prefix, li))
            obligations.append(("inv:%s.loop%d" % (prefix, li), "loop over `%s`: %s" % (lp["expr"], " ".join(l["inv"].split())[:200])))
        if l.get("body"):
            sp.after_tok(ts[lp["open"]], " " + l["body"].strip().replace("$it", binder) + " ", "ghost:loop-body")
        if l.get("end"):
            sp.before_tok(ts[lp["close"]], " " + l["end"].strip().replace("$it", binder) + " ", "ghost:loop-end")
        if l.get("after"):
            sp.after_tok(ts[lp["close"]], "\n" + l["after"].strip() + "\n", "ghost:after-loop")
    ploops = U.find_plain_loops(fn)
    for li, l in enumerate(spec.get("plain_loops", [])):
        k = l.get("nth", li)
        if k >= len(ploops):
            raise C.LostAnchor("%s: no loop #%d" % (fn.name, k))
        lp = ploops[k]
        first = ts[lp["kw"]] if lp["label"] is None else lp["label"]
        if l.get("pre"):
            sp.before_tok(first, l["pre"].strip() + "\n", "ghost:pre-loop")
        sp.before_tok(ts[lp["open"]], "\n    %s\n" % l["clauses"].strip(), "ob:inv:%s.ploop%d" % (prefix, li))
        obligations.append(("inv:%s.ploop%d" % (prefix, li), " ".join(l["clauses"].split())[:200]))
        if l.get("body"):
            sp.after_tok(ts[lp["open"]], " " + l["body"].strip() + " ", "ghost:loop-body")
        if l.get("after"):
            sp.after_tok(ts[lp["close"]], "\n" + l["after"].strip() + "\n", "ghost:after-loop")
    if spec.get("after"):
        stmts = all_statements(fn)
        for a in spec["after"]:
            n = a.get("nth", 0)
            if a["match"] in bind_stmts:
                hit = bind_stmts[a["match"]]
                sp.after_tok(ts[hit[1]], "\n" + a["text"].strip() + "\n", "ghost:after-stmt")
                continue
            ms = []
            for (x, y) in stmts:
                text = fn.src[ts[x].start:ts[y].end]
                if re.search(a["match"], text):
                    ms.append((x, y))
            # innermost matches only (a statement that contains another matching statement is dropped)
            inner = [m for m in ms if not any(o != m and m[0] <= o[0] and o[1] <= m[1] for o in ms)]
            hit = inner[n] if n < len(inner) else None
            if hit is None:
                raise C.LostAnchor("%s: no statement matching /%s/" % (fn.name, a["match"]))
            where = a.get("where", "after")
            if where == "after":
                sp.after_tok(ts[hit[1]], "\n" + a["text"].strip() + "\n", "ghost:after-stmt")
            else:
                sp.before_tok(ts[hit[0]], a["text"].strip() + "\n", "ghost:before-stmt")
    if spec.get("before_tail"):
        sp.before_tok(ts[fn.body_close - 1] if ts[fn.body_close - 1].kind == "ident" else ts[fn.body_close], spec["before_tail"].strip() + "\n    ", "ghost:before-tail")


def build(ctx, unit_name, only=None, probe=None):
    """Assemble unit `unit_name` from /verif/contracts/<unit_name>.{py,rs}.
    probe: a list that receives the tags of the inserted vacuity probes (probe variant of the unit)."""
    tab = load_table(unit_name)
    u = U.Unit(unit_name)
    if getattr(tab, "STANDALONE", False):
        # STANDALONE = True: a unit over functions that use no parse-tree type (no pt module, no generated spec, no ast items)
        # STANDALONE = "pt": the parse-tree types only
        if tab.STANDALONE == "pt":
            u.raw(C.PRELUDE % {"features": getattr(tab, "FEATURES", ""), "uses": getattr(tab, "USES", "")}, "prelude")
            C.add_pt_module(u, ctx)
            u.raw("use crate::pt::*;\n", "prelude:paths")
        else:
            u.raw(getattr(tab, "FEATURES", "") + "\nuse vstd::prelude::*;\n" + getattr(tab, "USES", "") + "\nverus! {\n", "prelude")
        text = spec_text(unit_name)
        if "GET_LINE_NUMBER_CONTRACT" in text:
            # the contract proved in unit lines, clause for clause
            text = text.replace("GET_LINE_NUMBER_CONTRACT", [f for f in load_table("lines").FUNCTIONS if f["name"] == "get_line_number"][0]["contract"])
        u.raw(text, "spec:unit")
        if hasattr(tab, "extra_spec"):
            u.raw(tab.extra_spec(ctx), "spec:generated:unit")
        for it_spec in getattr(tab, "ITEMS", []):
            cands = [it for it in ctx.items(it_spec["rel"]) if it.kind == it_spec["kind"] and it.name == it_spec["name"]]
            if not cands:
                raise C.LostAnchor("%s %s not found in %s" % (it_spec["kind"], it_spec["name"], it_spec["rel"]))
            sp = U.Splice(cands[0])
            U.add_external_derive(sp)
            u.add_splice(sp)
        obligations = []
        for entry in tab.FUNCTIONS:
            if only and entry["name"] not in only:
                continue
            rel = entry["rel"]
            if rel == "@pt":
                rel = os.path.join(ctx.solang["dir"], "src/pt.rs")
            fn = ctx.fn(rel, entry["name"], entry.get("impl"))
            sp = U.Splice(fn)
            annotate_fn(sp, fn, entry, obligations, entry["name"], probe)
            if entry.get("wrap"):
                u.raw(entry["wrap"] + "\n", "wrap")
            u.add_splice(sp)
            if entry.get("wrap"):
                u.raw("}\n", "wrap")
        for lem in getattr(tab, "LEMMAS", []):
            obligations.append(("lemma:%s" % lem[0], lem[1]))
        u.raw(C.EPILOGUE, "epilogue")
        u.obligations = obligations
        return u
    feats = getattr(tab, "FEATURES", "#![feature(pattern)]")
    u.raw(C.PRELUDE % {"features": feats, "uses": getattr(tab, "USES", "")}, "prelude")
    C.add_pt_module(u, ctx)
    u.raw("use crate::pt::*;\npub mod ast { pub use crate::*; }\npub mod utils { pub use crate::*; }\n", "prelude:paths")
    u.raw(ctx.all_nodes_spec + "\n", "spec:generated:all_nodes")
    u.raw(ctx.kind_spec + "\n", "spec:generated:kind")
    u.raw(C.GENERIC_SPEC, "spec:generic")
    u.raw(A.TSET_SPEC, "spec:tset")
    u.raw(C.into_spec_impls(ctx), "spec:into")
    from . import ptspec
    u.raw(STD_SPECS, "spec:std-assumed")
    u.raw(HITS_SPEC, "spec:hits")
    if getattr(tab, "GENERATED_SPEC", None) == "below_top":
        from . import btgen
        u.raw(btgen.BelowTopGen(ctx.tt).text(), "spec:generated:below_top")
    if getattr(tab, "GENERATED_SPEC", None) == "eqv":
        from . import eqvgen
        u.raw(eqvgen.EqvGen(ctx.tt, ctx.specgen).text(), "spec:generated:eqv")
    u.raw(spec_text(unit_name), "spec:unit")
    if hasattr(tab, "extra_spec"):
        u.raw(tab.extra_spec(ctx), "spec:generated:unit")
    obligations = []
    # ast items: walker under its proved contract (external_body), the rest with real bodies
    splices, _obs = A.small_fn_splices(ctx, walker_external=True)
    for sp in splices:
        u.add_splice(sp)
    for entry in tab.FUNCTIONS:
        if only and entry["name"] not in only:
            continue
        fn = ctx.fn(entry["rel"], entry["name"], entry.get("impl"))
        sp = U.Splice(fn)
        annotate_fn(sp, fn, entry, obligations, entry["name"], probe)
        u.add_splice(sp)
    for lem in getattr(tab, "LEMMAS", []):
        obligations.append(("lemma:%s" % lem[0], lem[1]))
    for lem in (("lemma_c19_file", "C19 over the spec: hits over a file == union of hits over its top-level items"),
                ("lemma_hits_concat", "hits distributes over concatenation"),
                ("lemma_hits_contains", "a location is reported iff some extracted node matches and has that location")):
        if not any(o[0] == "lemma:" + lem[0] for o in obligations):
            obligations.append(("lemma:%s" % lem[0], lem[1]))
    u.raw(C.EPILOGUE, "epilogue")
    u.obligations = obligations
    return u
