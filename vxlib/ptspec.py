"""Type table of the parse tree (solang-parser pt.rs) and the specs generated from it.

Everything here is derived from the *type definitions* that are compiled into
solstat (the pt.rs of the solang-parser version pinned by /repo/Cargo.lock) and
from the `Target` enum of /repo/src/analyzer/ast.rs -- never from the walker.

Generated:
  * an_<K>(x) -> Seq<Node>       pre-order enumeration of all nodes below a node of kind K
  * an_vec_<T>(s, n)             prefix fold over a Vec<T> field
  * kind_<K>(x) -> Target        variant-name == target-name classification
  * the same as executable Rust (for the native harness / replay)
"""
import glob
import hashlib
import json
import os
import re
import subprocess

from . import rs

NODE_TYPES = ["SourceUnit", "SourceUnitPart", "ContractPart", "Statement", "Expression"]
EMPTY = "Seq::<Node>::empty()"


def locate_solang(repo="/repo"):
    """Find the source dir of the solang-parser version pinned in Cargo.lock and check its checksum
    against the .crate file in the registry cache (when present)."""
    lock = open(os.path.join(repo, "Cargo.lock")).read()
    m = re.search(r'name = "solang-parser"\nversion = "([^"]+)"\nsource = "[^"]*"\nchecksum = "([0-9a-f]+)"', lock)
    if not m:
        raise RuntimeError("solang-parser not found in Cargo.lock")
    ver, checksum = m.group(1), m.group(2)
    home = os.environ.get("CARGO_HOME", os.path.expanduser("~/.cargo"))
    srcs = glob.glob(os.path.join(home, "registry/src/*/solang-parser-%s" % ver))
    if not srcs:
        raise RuntimeError("solang-parser-%s source not in registry" % ver)
    info = {"version": ver, "lock_checksum": checksum, "dir": srcs[0], "crate_checksum_ok": None}
    crates = glob.glob(os.path.join(home, "registry/cache/*/solang-parser-%s.crate" % ver))
    if crates:
        h = hashlib.sha256(open(crates[0], "rb").read()).hexdigest()
        info["crate_checksum_ok"] = (h == checksum)
    # .cargo-checksum.json inside the unpacked dir is not present in registry/src; compare pt.rs with the .crate member
    if crates:
        import tarfile
        try:
            with tarfile.open(crates[0]) as tf:
                member = tf.extractfile("solang-parser-%s/src/pt.rs" % ver)
                info["pt_rs_matches_crate"] = (member.read() == open(os.path.join(srcs[0], "src/pt.rs"), "rb").read())
        except Exception as e:  # pragma: no cover
            info["pt_rs_matches_crate"] = "unchecked: %s" % e
    return info


# ---------------------------------------------------------------- type parsing

def _parse_type(toks, i):
    t = toks[i]
    if t == "(":
        elems = []
        i += 1
        while toks[i] != ")":
            e, i = _parse_type(toks, i)
            elems.append(e)
            if toks[i] == ",":
                i += 1
        return ("tuple", elems), i + 1
    name = t
    i += 1
    args = []
    if i < len(toks) and toks[i] == "<":
        i += 1
        while toks[i] != ">":
            e, i = _parse_type(toks, i)
            args.append(e)
            if toks[i] == ",":
                i += 1
        i += 1
    return ("path", name, args), i


def _split_gt(texts):
    out = []
    for t in texts:
        if t == ">>":
            out += [">", ">"]
        else:
            out.append(t)
    return out


def parse_type_tokens(texts):
    texts = [t for t in _split_gt(texts) if t != "pub"]
    ty, _ = _parse_type(texts, 0)
    return ty


def _split_top(toks, sep=","):
    """split a token list at top-level separators; returns list of token lists"""
    out, cur, depth = [], [], 0
    for t in toks:
        if t.kind == "punct" and t.text in ("(", "[", "{", "<"):
            depth += 1
        elif t.kind == "punct" and t.text in (")", "]", "}", ">"):
            depth -= 1
        elif t.kind == "punct" and t.text == ">>":
            depth -= 2
        if t.kind == "punct" and t.text == sep and depth == 0:
            if cur:
                out.append(cur)
            cur = []
        else:
            cur.append(t)
    if cur:
        out.append(cur)
    return out


def _strip_attrs(toks):
    out = []
    i = 0
    while i < len(toks):
        if toks[i].text == "#":
            i = rs.match_close(toks, i + 1) + 1
            continue
        out.append(toks[i])
        i += 1
    return out


def _fields_named(toks):
    fs = []
    for f in _split_top(_strip_attrs(toks)):
        f = [t for t in f if t.text != "pub"]
        fs.append((f[0].text, parse_type_tokens([t.text for t in f[2:]])))
    return fs


def _fields_tuple(toks):
    return [(str(i), parse_type_tokens([t.text for t in f])) for i, f in enumerate(_split_top(_strip_attrs(toks)))]


class TypeTable:
    def __init__(self, pt_path):
        self.pt_path = pt_path
        self.src, self.items = rs.load_items(pt_path)
        self.types = {}          # name -> ('enum', [(vname, kind, fields)]) | ('struct', kind, fields) | ('alias', ty)
        self.order = []
        self.type_items = []
        for it in self.items:
            if it.kind not in ("enum", "struct", "type"):
                continue
            if it.toks[it.after_attrs].text != "pub":
                continue
            self.type_items.append(it)
            ts = it.toks
            k = it.sig_tok
            name = ts[k + 1].text
            self.order.append(name)
            if it.kind == "type":
                eq = next(i for i, t in enumerate(ts) if t.text == "=")
                self.types[name] = ("alias", parse_type_tokens([t.text for t in ts[eq + 1:-1]]))
            elif it.kind == "struct":
                j = k + 2
                if ts[j].text == "(":
                    c = rs.match_close(ts, j)
                    self.types[name] = ("struct", "tuple", _fields_tuple(ts[j + 1:c]))
                elif ts[j].text == "{":
                    c = rs.match_close(ts, j)
                    self.types[name] = ("struct", "named", _fields_named(ts[j + 1:c]))
                else:
                    self.types[name] = ("struct", "unit", [])
            else:
                j = k + 2
                c = rs.match_close(ts, j)
                variants = []
                for v in _split_top(_strip_attrs(ts[j + 1:c])):
                    vn = v[0].text
                    if len(v) == 1:
                        variants.append((vn, "unit", []))
                    elif v[1].text == "(":
                        variants.append((vn, "tuple", _fields_tuple(v[2:-1])))
                    else:
                        variants.append((vn, "named", _fields_named(v[2:-1])))
                self.types[name] = ("enum", variants)
        self._carriers()

    # a type is a "carrier" if a node can occur (transitively) inside it
    def _carriers(self):
        self.carrier = set(NODE_TYPES)
        changed = True
        while changed:
            changed = False
            for n, d in self.types.items():
                if n in self.carrier or d[0] == "alias":
                    continue
                fl = []
                if d[0] == "struct":
                    fl = [t for _, t in d[2]]
                else:
                    for v in d[1]:
                        fl += [t for _, t in v[2]]
                if any(self.t_carrier(t) for t in fl):
                    self.carrier.add(n)
                    changed = True

    def t_carrier(self, t):
        if t[0] == "tuple":
            return any(self.t_carrier(e) for e in t[1])
        name, args = t[1], t[2]
        if name in ("Box", "Option", "Vec"):
            return self.t_carrier(args[0])
        if name in self.types and self.types[name][0] == "alias":
            return self.t_carrier(self.types[name][1])
        return name in self.carrier

    def resolve(self, t):
        while t[0] == "path" and t[1] in self.types and self.types[t[1]][0] == "alias":
            t = self.types[t[1]][1]
        return t

    def mangle(self, t):
        t = self.resolve(t)
        if t[0] == "tuple":
            return "T" + "_".join(self.mangle(e) for e in t[1]) + "E"
        return t[1] + "".join("_" + self.mangle(a) for a in t[2])

    def rust_ty(self, t, prefix="pt::"):
        t = self.resolve(t)
        if t[0] == "tuple":
            return "(" + ", ".join(self.rust_ty(e, prefix) for e in t[1]) + ")"
        name, args = t[1], t[2]
        if name in self.types:
            return prefix + name
        if args:
            return name + "<" + ", ".join(self.rust_ty(a, prefix) for a in args) + ">"
        return name


# ---------------------------------------------------------------- spec generation (Verus)

class SpecGen:
    def __init__(self, tt):
        self.tt = tt
        self.helpers = {}
        self.cnt = 0

    def chain(self, prefix, segs):
        parts = ([prefix] if prefix else []) + segs
        if not parts:
            return EMPTY
        return " + ".join(parts)

    def segs(self, v, t):
        tt = self.tt
        if not tt.t_carrier(t):
            return []
        t = tt.resolve(t)
        if t[0] == "tuple":
            out = []
            for i, e in enumerate(t[1]):
                out += self.segs("%s.%d" % (v, i), e)
            return out
        name, args = t[1], t[2]
        if name == "Box":
            return self.segs("(*%s)" % v, args[0])
        if name == "Option":
            self.cnt += 1
            o = "o%d" % self.cnt
            return ["(match %s { Some(%s) => %s, None => %s })" % (v, o, self.chain(None, self.segs(o, args[0])), EMPTY)]
        if name == "Vec":
            h = "an_vec_" + tt.mangle(args[0])
            if h not in self.helpers:
                self.helpers[h] = None
                self.helpers[h] = (args[0], self.segs("s[n - 1]", args[0]))
            return ["%s(%s@, %s@.len() as int)" % (h, v, v)]
        if name in NODE_TYPES:
            return ["an_%s(%s)" % (name, v)]
        d = tt.types[name]
        if d[0] == "struct":
            out = []
            for f, ft in d[2]:
                out += self.segs("%s.%s" % (v, f), ft)
            return out
        return [self.enum_match(v, name, None)]

    def enum_match(self, v, n, prefix):
        d = self.tt.types[n]
        arms = []
        self.cnt += 1
        u = self.cnt
        for vn, kind, fs in d[1]:
            if kind == "unit":
                arms.append("pt::%s::%s => %s," % (n, vn, self.chain(prefix, [])))
                continue
            if kind == "tuple":
                pat = "(" + ", ".join("g%d_%d" % (u, i) for i, _ in enumerate(fs)) + ")"
                ss = []
                for i, (_, t) in enumerate(fs):
                    ss += self.segs("g%d_%d" % (u, i), t)
            else:
                pat = "{ " + ", ".join("%s: g%d_%s" % (f, u, f) for f, _ in fs) + " }"
                ss = []
                for f, t in fs:
                    ss += self.segs("g%d_%s" % (u, f), t)
            arms.append("pt::%s::%s%s => %s," % (n, vn, pat, self.chain(prefix, ss)))
        return "(match %s {\n        " % v + "\n        ".join(arms) + "\n    })"

    def all_nodes_spec(self):
        tt = self.tt
        out = []
        for n in tt.order:
            if n not in NODE_TYPES:
                continue
            d = tt.types[n]
            pre = "seq![Node::%s(x)]" % n
            if d[0] == "struct":
                ss = []
                for f, t in d[2]:
                    ss += self.segs("x.%s" % f, t)
                body = self.chain(pre, ss)
            else:
                body = self.enum_match("x", n, pre)
            out.append("pub open spec fn an_%s(x: pt::%s) -> Seq<Node>\n    decreases x\n{\n    %s\n}\n" % (n, n, body))
        done = set()
        while True:
            todo = [h for h in self.helpers if h not in done]
            if not todo:
                break
            for h in todo:
                et, ss = self.helpers[h]
                done.add(h)
                out.append("pub open spec fn %s(s: Seq<%s>, n: int) -> Seq<Node>\n    decreases s, n\n{\n    if 0 < n <= s.len() { %s } else { %s }\n}\n" % (
                    h, self.tt.rust_ty(et), self.chain(h + "(s, n - 1)", ss), EMPTY))
        # size lemmas (PROVED): the nodes of a prefix are no more than the nodes of a longer prefix; used for the
        # termination measure `all_nodes(node).len()` of the walker's recursive calls made from inside loops
        for h in sorted(done):
            et, _ss = self.helpers[h]
            out.append("pub proof fn lemma_%s_mono(s: Seq<%s>, a: int, b: int)\n    requires 0 <= a <= b <= s.len()\n    ensures %s(s, a).len() <= %s(s, b).len()\n    decreases b - a\n{\n    if a < b { lemma_%s_mono(s, a, b - 1); }\n}\n" % (
                h, self.tt.rust_ty(et), h, h, h))
        return "\n".join(out)

    def helper_for_elem(self, rust_elem_ty_printed):
        """Map a rustc-printed element type (e.g. `pt::Base`, `(pt::Loc, Option<pt::Parameter>)`) to its helper."""
        norm = lambda s: re.sub(r"\s+", "", s).replace("pt::", "").replace("std::option::", "").replace("std::boxed::", "").replace("std::vec::", "")
        want = norm(rust_elem_ty_printed)
        for h, v in self.helpers.items():
            if v is None:
                continue
            if norm(self.tt.rust_ty(v[0])) == want:
                return h
        return None


def kind_specs(tt, target_variants):
    out = []
    for tyname in ["Statement", "Expression", "SourceUnitPart", "ContractPart"]:
        d = tt.types[tyname]
        arms = []
        for vn, kind, fs in d[1]:
            pat = {"unit": "", "tuple": "(..)", "named": "{..}"}[kind]
            tgt = vn if vn in target_variants else "None"
            arms.append("        pt::%s::%s%s => Target::%s," % (tyname, vn, pat, tgt))
        out.append("pub open spec fn kind_%s(x: pt::%s) -> Target {\n    match x {\n%s\n    }\n}\n" % (tyname, tyname, "\n".join(arms)))
    return "\n".join(out)


def code_loc_spec(tt):
    """Spec twin of `impl CodeLocation for Expression` (pt.rs), generated from the Expression type definition:
    the first Loc field of the variant; Variable -> its identifier's loc; String/Hex literal -> first piece."""
    arms = []
    for vn, kind, fs in tt.types["Expression"][1]:
        if kind == "tuple" and fs and fs[0][1] == ("path", "Loc", []):
            pat = "(l" + "".join(", _" for _ in fs[1:]) + ")"
            arms.append("        pt::Expression::%s%s => l," % (vn, pat))
        elif vn == "Variable":
            arms.append("        pt::Expression::Variable(id) => id.loc,")
        elif vn in ("StringLiteral", "HexLiteral"):
            arms.append("        pt::Expression::%s(v) => if v@.len() > 0 { v@[0].loc } else { arbitrary() }," % vn)
        else:
            raise RuntimeError("code_loc_spec: unexpected Expression variant shape %s" % vn)
    pre = "\n".join("        pt::Expression::%s(v) => v@.len() > 0," % vn for vn in ("StringLiteral", "HexLiteral"))
    return ("/// spec twin of `impl CodeLocation for Expression`, generated from the Expression type definition\n"
            "/// (the first Loc field of the variant); the real impl is VERIFIED against it in every unit\n"
            "pub open spec fn code_loc(e: pt::Expression) -> pt::Loc {\n    match e {\n%s\n    }\n}\n"
            "/// precondition of Expression::loc(): the piece list of a string / hex literal is not empty (`v[0]`)\n"
            "pub open spec fn code_loc_pre(e: pt::Expression) -> bool {\n    match e {\n%s\n        _ => true,\n    }\n}\n" % ("\n".join(arms), pre))


# ---------------------------------------------------------------- executable oracle generation

class ExecGen:
    """Executable twin of SpecGen: fn an_<K>(x: &pt::K, out: &mut Vec<Node>)."""

    def __init__(self, tt):
        self.tt = tt
        self.cnt = 0
        self.positions = []

    def stmts(self, v, t, ind, path="?"):
        """statements pushing all nodes under value expression v (a reference expr) of type t"""
        tt = self.tt
        if not tt.t_carrier(t):
            return []
        t = tt.resolve(t)
        pad = " " * ind
        if t[0] == "tuple":
            out = []
            for i, e in enumerate(t[1]):
                out += self.stmts("&(%s).%d" % (v, i), e, ind, path + ".%d" % i)
            return out
        name, args = t[1], t[2]
        if name == "Box":
            return self.stmts("&**(%s)" % v, args[0], ind, path)
        if name == "Option":
            self.cnt += 1
            o = "o%d" % self.cnt
            inner = self.stmts(o, args[0], ind + 4, path)
            return ["%sif let Some(%s) = %s {" % (pad, o, v)] + inner + ["%s}" % pad]
        if name == "Vec":
            self.cnt += 1
            e = "e%d" % self.cnt
            inner = self.stmts(e, args[0], ind + 4, path + "[]")
            return ["%sfor %s in (%s).iter() {" % (pad, e, v)] + inner + ["%s}" % pad]
        if name in NODE_TYPES:
            self.positions.append("%s: %s" % (path, name))
            return ["%shit(%d);" % (pad, len(self.positions) - 1), "%san_%s(%s, out);" % (pad, name, v)]
        d = tt.types[name]
        if d[0] == "struct":
            out = []
            for f, ft in d[2]:
                out += self.stmts("&(%s).%s" % (v, f), ft, ind, path + "/" + name + "." + f)
            return out
        return self.enum_match(v, name, ind, path)

    def enum_match(self, v, n, ind, path=""):
        d = self.tt.types[n]
        pad = " " * ind
        self.cnt += 1
        u = self.cnt
        lines = ["%smatch %s {" % (pad, v)]
        for vn, kind, fs in d[1]:
            if kind == "unit":
                lines.append("%s    pt::%s::%s => {}" % (pad, n, vn))
                continue
            if kind == "tuple":
                binds = ["g%d_%d" % (u, i) for i, _ in enumerate(fs)]
                pat = "(" + ", ".join(binds) + ")"
                body = []
                for i, (b, (_, t)) in enumerate(zip(binds, fs)):
                    body += self.stmts(b, t, ind + 8, "%s/%s::%s.%d" % (path, n, vn, i))
            else:
                pat = "{ " + ", ".join("%s: g%d_%s" % (f, u, f) for f, _ in fs) + " }"
                body = []
                for f, t in fs:
                    body += self.stmts("g%d_%s" % (u, f), t, ind + 8, "%s/%s::%s.%s" % (path, n, vn, f))
            lines.append("%s    #[allow(unused_variables)]" % pad)
            lines.append("%s    pt::%s::%s%s => {" % (pad, n, vn, pat))
            lines += body
            lines.append("%s    }" % pad)
        lines.append("%s}" % pad)
        return lines

    def module(self, target_variants):
        tt = self.tt
        out = ["// GENERATED by vxlib/ptspec.py from the parse-tree type definitions (pt.rs) and the Target enum.",
               "// Do not edit. Executable twin of the Verus spec functions an_<K> / kind_<K>.",
               "#![allow(unused_parens, clippy::all)]",
               "use solang_parser::pt;",
               "use solstat::analyzer::ast::{Node, Target};", ""]
        for n in NODE_TYPES:
            d = tt.types[n]
            out.append("pub fn an_%s(x: &pt::%s, out: &mut Vec<Node>) {" % (n, n))
            out.append("    out.push(Node::%s(x.clone()));" % n)
            if d[0] == "struct":
                for f, t in d[2]:
                    out += self.stmts("&x.%s" % f, t, 4, n + "." + f)
            else:
                out += self.enum_match("x", n, 4, "")
            out.append("}\n")
        out.append("pub fn all_nodes(n: &Node) -> Vec<Node> {\n    let mut out = vec![];\n    match n {")
        for n in NODE_TYPES:
            out.append("        Node::%s(x) => an_%s(x, &mut out)," % (n, n))
        out.append("    }\n    out\n}\n")
        for tyname in ["Statement", "Expression", "SourceUnitPart", "ContractPart"]:
            d = tt.types[tyname]
            out.append("pub fn kind_%s(x: &pt::%s) -> Target {\n    match x {" % (tyname, tyname))
            for vn, kind, fs in d[1]:
                pat = {"unit": "", "tuple": "(..)", "named": "{..}"}[kind]
                tgt = vn if vn in target_variants else "None"
                out.append("        pt::%s::%s%s => Target::%s," % (tyname, vn, pat, tgt))
            out.append("    }\n}\n")
        out.append("pub fn kind(n: &Node) -> Target {\n    match n {\n        Node::Statement(s) => kind_Statement(s),\n        Node::Expression(e) => kind_Expression(e),\n        Node::SourceUnit(_) => Target::SourceUnit,\n        Node::SourceUnitPart(p) => kind_SourceUnitPart(p),\n        Node::ContractPart(p) => kind_ContractPart(p),\n    }\n}\n")
        out.append("pub const POSITIONS: &[&str] = &[")
        for p_ in self.positions:
            out.append('    "%s",' % p_)
        out.append("];\n")
        out.append("pub static COV: [std::sync::atomic::AtomicU64; %d] = [const { std::sync::atomic::AtomicU64::new(0) }; %d];" % (len(self.positions), len(self.positions)))
        out.append("#[inline] fn hit(i: usize) { COV[i].fetch_add(1, std::sync::atomic::Ordering::Relaxed); }\n")
        out.append("pub const TARGET_NAMES: &[(&str, Target)] = &[")
        for v in target_variants:
            out.append('    ("%s", Target::%s),' % (v, v))
        out.append("];\n")
        return "\n".join(out)


def target_variants(ast_path="/repo/src/analyzer/ast.rs"):
    src, items = rs.load_items(ast_path)
    for it in items:
        if it.kind == "enum" and it.name == "Target":
            ts = it.toks
            j = it.sig_tok + 2
            c = rs.match_close(ts, j)
            return [v[0].text for v in _split_top(_strip_attrs(ts[j + 1:c]))]
    raise RuntimeError("enum Target not found")
