"""Rust-aware lexical tools: tokenizer, item scanner, balanced-delimiter helpers.

This is deliberately *lexical*: it never re-prints code.  Everything the
extractor copies out of /repo is a byte range of the original file; every edit is
a pure insertion at a byte offset (see unit.py), so the text Verus checks is the
text rustc compiles plus marked insertions.
"""
import re
from collections import namedtuple

Tok = namedtuple("Tok", "kind text start end")
# kinds: ident, num, str, char, life, punct, comment

_PUNCT3 = ("<<=", ">>=", "...", "..=")
_PUNCT2 = ("=>", "->", "::", "..", "==", "!=", "<=", ">=", "&&", "||", "+=", "-=", "*=", "/=",
           "%=", "^=", "&=", "|=", "<<", ">>")

_ident_re = re.compile(r"[A-Za-z_][A-Za-z0-9_]*")
_num_re = re.compile(r"[0-9][0-9A-Za-z_]*(\.[0-9][0-9A-Za-z_]*)?")
_char_re = re.compile(r"'(\\x[0-9a-fA-F]{2}|\\u\{[0-9a-fA-F_]+\}|\\.|[^\\'])'")
_raw_re = re.compile(r"b?r(#*)\"")


def tokenize(src, keep_comments=False):
    toks = []
    i, n = 0, len(src)
    while i < n:
        c = src[i]
        if c.isspace():
            i += 1
            continue
        if src.startswith("//", i):
            j = src.find("\n", i)
            j = n if j < 0 else j
            if keep_comments:
                toks.append(Tok("comment", src[i:j], i, j))
            i = j
            continue
        if src.startswith("/*", i):
            depth, j = 1, i + 2
            while j < n and depth:
                if src.startswith("/*", j):
                    depth += 1
                    j += 2
                elif src.startswith("*/", j):
                    depth -= 1
                    j += 2
                else:
                    j += 1
            if keep_comments:
                toks.append(Tok("comment", src[i:j], i, j))
            i = j
            continue
        m = _raw_re.match(src, i)
        if m:
            close = '"' + m.group(1)
            j = src.find(close, m.end())
            j = n if j < 0 else j + len(close)
            toks.append(Tok("str", src[i:j], i, j))
            i = j
            continue
        if c == '"' or (c == "b" and src.startswith('b"', i)):
            j = i + (2 if c == "b" else 1)
            while j < n and src[j] != '"':
                if src[j] == "\\":
                    j += 1
                j += 1
            j += 1
            toks.append(Tok("str", src[i:j], i, j))
            i = j
            continue
        if c == "'":
            m = _char_re.match(src, i)
            if m:
                toks.append(Tok("char", m.group(0), i, m.end()))
                i = m.end()
                continue
            m = _ident_re.match(src, i + 1)
            if m:
                toks.append(Tok("life", src[i:m.end()], i, m.end()))
                i = m.end()
                continue
            toks.append(Tok("punct", c, i, i + 1))
            i += 1
            continue
        m = _ident_re.match(src, i)
        if m:
            toks.append(Tok("ident", m.group(0), i, m.end()))
            i = m.end()
            continue
        m = _num_re.match(src, i)
        if m:
            toks.append(Tok("num", m.group(0), i, m.end()))
            i = m.end()
            continue
        for p in _PUNCT3:
            if src.startswith(p, i):
                toks.append(Tok("punct", p, i, i + 3))
                i += 3
                break
        else:
            for p in _PUNCT2:
                if src.startswith(p, i):
                    toks.append(Tok("punct", p, i, i + 2))
                    i += 2
                    break
            else:
                toks.append(Tok("punct", c, i, i + 1))
                i += 1
    return toks


def token_texts(src):
    """Comment/whitespace-insensitive token stream (for fidelity comparison).
    Shift operators are split so `>>` in generics compares equal either way."""
    out = []
    for t in tokenize(src):
        out.append(t.text)
    return out


OPEN = {"(": ")", "[": "]", "{": "}"}
CLOSE = {")": "(", "]": "[", "}": "{"}


def match_close(toks, i):
    """toks[i] is an opening delimiter; return index of its matching closer."""
    depth = 0
    j = i
    while j < len(toks):
        t = toks[j].text
        if toks[j].kind == "punct":
            if t in OPEN:
                depth += 1
            elif t in CLOSE:
                depth -= 1
                if depth == 0:
                    return j
        j += 1
    raise ValueError("unbalanced delimiter at %d" % toks[i].start)


class Item:
    """A top-level (or impl-level) item of a Rust source file."""

    def __init__(self, src, toks, lo, hi, path):
        self.src = src
        self.toks = toks[lo:hi + 1]
        self.start = toks[lo].start          # includes attributes
        self.end = toks[hi].end
        self.path = path
        self.attrs = []                      # list of attribute texts
        self.kind = None
        self.name = None
        self.sig_tok = None                  # index (in self.toks) of the kind keyword
        self.body_open = None                # index of '{' opening the body, if any
        self.body_close = None
        self._classify()

    @property
    def text(self):
        return self.src[self.start:self.end]

    def _classify(self):
        ts = self.toks
        i = 0
        while i < len(ts) and ts[i].text == "#":
            j = i + 1
            if ts[j].text == "!":
                j += 1
            k = match_close(ts, j)
            self.attrs.append(self.src[ts[i].start:ts[k].end])
            i = k + 1
        self.after_attrs = i
        # visibility / qualifiers
        while i < len(ts) and ts[i].text in ("pub", "const", "unsafe", "async", "extern", "default"):
            if ts[i].text == "pub" and i + 1 < len(ts) and ts[i + 1].text == "(":
                i = match_close(ts, i + 1) + 1
                continue
            if ts[i].text == "const" and i + 1 < len(ts) and ts[i + 1].kind == "ident" and ts[i + 1].text != "fn" and ts[i + 1].text not in ("unsafe", "async", "extern"):
                break
            if ts[i].text == "extern" and i + 1 < len(ts) and ts[i + 1].kind == "str":
                i += 2
                continue
            i += 1
        if i >= len(ts):
            self.kind = "other"
            return
        kw = ts[i].text
        self.sig_tok = i
        self.kind = kw if kw in ("fn", "impl", "enum", "struct", "type", "use", "mod", "const", "static", "trait", "macro_rules") else "other"
        if self.kind in ("fn", "enum", "struct", "type", "mod", "const", "static", "trait"):
            self.name = ts[i + 1].text
        if self.kind == "impl":
            # header text up to '{'
            j = i
            while ts[j].text != "{":
                if ts[j].text in OPEN:
                    j = match_close(ts, j)
                j += 1
            self.body_open = j
            self.body_close = match_close(ts, j)
            self.name = " ".join(t.text for t in ts[i + 1:j])
        if self.kind == "fn":
            j = i
            while j < len(ts) and ts[j].text not in ("{", ";"):
                if ts[j].text in ("(", "["):
                    j = match_close(ts, j)
                j += 1
            if j < len(ts) and ts[j].text == "{":
                self.body_open = j
                self.body_close = match_close(ts, j)

    def is_test(self):
        return any(re.search(r"#\[\s*(test|cfg\(test\))", a) for a in self.attrs)

    def inner_items(self):
        """Items inside an impl / mod body."""
        if self.body_open is None:
            return []
        return scan_items(self.src, self.toks[self.body_open + 1:self.body_close], self.path)


def scan_items(src, toks=None, path="<mem>"):
    if toks is None:
        toks = tokenize(src)
    items = []
    i, n = 0, len(toks)
    while i < n:
        lo = i
        # attributes
        while i < n and toks[i].text == "#":
            j = i + 1
            if toks[j].text == "!":
                j += 1
            i = match_close(toks, j) + 1
        # find end: first ';' or '}' closing at depth 0
        j = i
        end = None
        first_kw = None
        k = i
        while k < n:
            if toks[k].text == "pub":
                k += 1
                if k < n and toks[k].text == "(":
                    k = match_close(toks, k) + 1
                continue
            if toks[k].text in ("unsafe", "async", "default"):
                k += 1
                continue
            break
        if k < n:
            first_kw = toks[k].text
        semi_items = first_kw in ("use", "type", "static", "extern") or (
            first_kw == "const" and k + 1 < n and toks[k + 1].text != "fn")
        while j < n:
            t = toks[j]
            if t.kind == "punct" and t.text in OPEN:
                close = match_close(toks, j)
                if t.text == "{" and not semi_items:
                    end = close
                    break
                j = close + 1
                continue
            if t.kind == "punct" and t.text == ";":
                end = j
                break
            j += 1
        if end is None:
            break
        if not (end == lo and toks[lo].text == ";"):
            items.append(Item(src, toks, lo, end, path))
        i = end + 1
    return items


def load_items(path):
    src = open(path).read()
    return src, scan_items(src, path=path)


def find_fn(items, name, impl_header=None):
    """Locate a fn item by name (optionally inside the impl whose header matches)."""
    for it in items:
        if it.kind == "fn" and it.name == name and impl_header is None:
            return it
        if it.kind == "impl" and (impl_header is None or re.search(impl_header, it.name)):
            for inner in it.inner_items():
                if inner.kind == "fn" and inner.name == name:
                    return inner
    return None
