"""Unit `ast`: the real src/analyzer/ast.rs under the C01 contract.

Everything positional is derived from the function text itself:
  * parameter names from the signature, the accumulator from the tail expression,
  * the match on the node parameter and its (nested) leaf arms from the token structure,
  * the spec helper of every loop from the element type rustc infers for the loop's iterator
    (a type-check-only pre-pass, see `probe_loop_types`).
"""
import json
import os
import re
import subprocess

from . import rs, unit as U, common as C

TSET_SPEC = """
/// set of the first k elements of a target list, built by insertion (C01: "every set of node kinds")
pub open spec fn tset(s: Seq<Target>, k: int) -> Set<Target>
    decreases k
{
    if 0 < k <= s.len() { tset(s, k - 1).insert(s[k - 1]) } else { Set::<Target>::empty() }
}
pub proof fn lemma_tset_contains(s: Seq<Target>, k: int, t: Target)
    requires 0 <= k <= s.len()
    ensures tset(s, k).contains(t) <==> (exists|i: int| 0 <= i < k && s[i] == t)
    decreases k
{
    if k > 0 { lemma_tset_contains(s, k - 1, t); }
}
"""


def leaf_arms(fn, match_idx, prefix=""):
    """Recursively collect leaf arms of the match at token index match_idx."""
    ts = fn.toks
    mo, mc, arms = U.match_arms(fn, match_idx)
    out = []
    for a in arms:
        label = prefix + U.pat_label(fn, a)
        b0 = a["body"][0]
        if not a["block"] and ts[b0].text == "match":
            out += leaf_arms(fn, b0, label + "/")
            continue
        if a["block"]:
            # block whose only content is a match expression?
            inner0 = b0 + 1
            if ts[inner0].text == "match":
                _mo, imc, _ = U.match_arms(fn, inner0)
                if imc == a["body"][1] - 1:
                    out += leaf_arms(fn, inner0, label + "/")
                    continue
            out.append({"label": label, "open": b0, "close": a["body"][1]})
        else:
            raise C.Unsupported("arm %s of %s has a non-block body" % (label, fn.name))
    return out


def find_node_match(fn, node_param):
    """first `match <node_param> {` at statement level of the fn body"""
    ts = fn.toks
    i = fn.body_open + 1
    depth = 0
    while i < fn.body_close:
        t = ts[i]
        if t.text == "{":
            i = rs.match_close(ts, i) + 1
            continue
        if t.kind == "ident" and t.text == "match" and ts[i + 1].text == node_param and ts[i + 2].text == "{":
            return i
        i += 1
    raise C.LostAnchor("no `match %s {` in %s" % (node_param, fn.name))


def tail_ident(fn):
    ts = fn.toks
    t = ts[fn.body_close - 1]
    if t.kind != "ident":
        raise C.LostAnchor("%s does not end in a tail identifier" % fn.name)
    return t.text, fn.body_close - 1


def plan_walker(ctx):
    fn = ctx.fn("src/analyzer/ast.rs", "walk_node_for_targets")
    params = U.param_names(fn)
    if len(params) != 2:
        raise C.LostAnchor("walk_node_for_targets: expected 2 parameters, got %r" % (params,))
    targets, node = params
    acc, tail_idx = tail_ident(fn)
    m = find_node_match(fn, node)
    arms = leaf_arms(fn, m)
    loops = U.find_for_loops(fn)
    for lp in loops:
        if U.contains_continue(fn, lp["open"] + 1, lp["close"]):
            raise C.Unsupported("`continue` inside a for loop of the walker")
        lp["arm"] = None
        for a in arms:
            if a["open"] < lp["for"] < a["close"]:
                lp["arm"] = a["label"]
    return {"fn": fn, "targets": targets, "node": node, "acc": acc, "tail": tail_idx, "match": m,
            "arms": arms, "loops": loops}


def walker_splice(ctx, plan, helpers, check_arms=None, probe=False, mode="post"):
    """Annotated walker.  helpers: list (per loop) of an_vec_* names (None while probing).
    check_arms: set of arm labels whose obligations are checked in this variant (None = all);
    other arms start with `assume(false)` (each arm is checked in exactly one variant).
    mode "post": the functional contract (`ensures`), recursion allowed without a measure in THIS variant;
    mode "term": termination only -- the same text under `decreases all_nodes(node).len()`, no `ensures`, the loops
    carry only the size invariant. The two variants are verified separately because the combined query is unstable
    (one arm exceeded the resource limit depending on the unit's file name)."""
    fn = plan["fn"]
    ts = fn.toks
    T, N, M = plan["targets"], plan["node"], plan["acc"]
    sp = U.Splice(fn)
    if mode == "term":
        U.add_contract(sp, "decreases all_nodes(%s).len()" % N, tag="ob:decreases:%s" % fn.name)
        obligations = [("decreases:walk_node_for_targets", "termination: every recursive call is made on a node with strictly fewer nodes below it (measure all_nodes(node).len())")]
        for k, lp in enumerate(plan["loops"]):
            h = helpers[k]
            sp.before_tok(ts[lp["in"] + 1], "it%d: " % k, "loop:binder")
            sp.before_tok(ts[lp["open"]],
                          "\n    invariant %s(it%d.seq(), it%d.seq().len() as int).len() < all_nodes(%s).len(),\n" % (h, k, k, N),
                          "ob:inv:term.loop%d" % k)
            # the nodes below the current element are among the nodes of the whole sequence
            sp.after_tok(ts[lp["open"]], " proof { lemma_%s_mono(it%d.seq(), it%d.index@ + 1, it%d.seq().len() as int); } " % (h, k, k, k), "ghost:term")
            obligations.append(("inv:term.loop%d" % k, "loop over `%s` in arm %s: the nodes of the iterated list are fewer than the nodes below the root (%s)" % (lp["expr"], lp["arm"], h)))
        for a in plan["arms"]:
            if check_arms is not None and a["label"] not in check_arms:
                sp.after_tok(ts[a["open"]], " assume(false); ", "split:skip")
        return sp, obligations
    U.add_attr(sp, "#[verifier::exec_allows_no_decreases_clause]", "attr:no_decreases")
    U.add_contract(sp, C.AST_CONTRACTS["walk_node_for_targets"].replace("targets@", T + "@").replace("node)", N + ")"))
    U.body_insert_start(sp,
                        "    proof { axiom_target_key_model(); }\n"
                        "    broadcast use lemma_flt_add, lemma_flt_one, lemma_flt_empty, lemma_add_assoc;\n"
                        "    let ghost node0 = %s;" % N, "ghost:init")
    goal = "%s@ =~= spec_walk(%s@, node0)" % (M, T)
    sp.before_tok(ts[plan["match"]], "assert(%s@ =~= flt(%s@, seq![node0])); " % (M, T), "ob:assert:self-node")
    obligations = [("assert:self-node", "the root node itself is kept iff its kind is wanted")]
    for k, lp in enumerate(plan["loops"]):
        if probe:
            sp.after_tok(ts[lp["open"]], " proof { let vx_probe_%d: () = vx_it%d.seq(); } " % (k, k), "probe")
            sp.before_tok(ts[lp["in"] + 1], "vx_it%d: " % k, "loop:binder")
            continue
        h = helpers[k]
        sp.before_tok(ts[lp["for"] if lp["label"] is None else ts.index(lp["label"])],
                      "let ghost pre%d = %s@; " % (k, M), "ghost:pre")
        sp.before_tok(ts[lp["in"] + 1], "it%d: " % k, "loop:binder")
        sp.before_tok(ts[lp["open"]],
                      "\n    invariant %s@ == pre%d + flt(%s@, %s(it%d.seq(), it%d.index@)),\n" % (M, k, T, h, k, k),
                      "ob:inv:loop%d" % k)
        obligations.append(("inv:loop%d" % k, "loop over `%s` in arm %s accumulates exactly the wanted nodes of the prefix (%s)" % (lp["expr"], lp["arm"], h)))
    for a in plan["arms"]:
        if probe:
            continue
        if check_arms is not None and a["label"] not in check_arms:
            sp.after_tok(ts[a["open"]], " assume(false); ", "split:skip")
        else:
            sp.before_tok(ts[a["close"]], " assert(%s); " % goal, "ob:arm:%s" % a["label"])
        obligations.append(("arm:%s" % a["label"], "arm visits exactly the fields of this variant, in field order"))
    if not probe:
        sp.before_tok(ts[plan["tail"]], "assert(%s);\n    " % goal, "ob:assert:all-arms")
        obligations.append(("assert:all-arms", "every arm establishes the postcondition"))
    return sp, obligations


def small_fn_splices(ctx, walker_external=False, plan=None, helpers=None, check_arms=None, probe=False, mode="post"):
    """All items of ast.rs (except `use`), with contracts; returns (list of splices, obligations)."""
    splices = []
    obligations = []
    for it in ctx.ast_items:
        if it.kind == "use" or it.is_test():
            continue
        if it.kind in ("enum", "struct"):
            sp = U.Splice(it)
            U.add_external_derive(sp)
            splices.append(sp)
            continue
        if it.kind == "fn":
            if it.name == "walk_node_for_targets":
                if walker_external:
                    sp = U.Splice(it)
                    U.add_attr(sp, "#[verifier::external_body]", "attr:external_body")
                    U.add_contract(sp, C.AST_CONTRACTS[it.name])
                    splices.append(sp)
                else:
                    sp, obs = walker_splice(ctx, plan, helpers, check_arms, probe, mode)
                    splices.append(sp)
                    obligations += obs
                continue
            sp = U.Splice(it)
            if it.name in C.AST_CONTRACTS:
                U.add_contract(sp, _small_contract(it))
                obligations.append(("post:%s" % it.name, C.AST_CONTRACTS[it.name]))
            _annotate_set_loops(sp, it, obligations)
            splices.append(sp)
            continue
        if it.kind == "impl":
            sp = U.Splice(it)
            for inner in it.inner_items():
                if inner.kind == "fn" and inner.name in C.AST_CONTRACTS and it.name.strip() == "Node":
                    isp = _InnerSplice(sp, inner)
                    U.add_contract(isp, C.AST_CONTRACTS[inner.name])
                    obligations.append(("post:Node::%s" % inner.name, C.AST_CONTRACTS[inner.name]))
            splices.append(sp)
            continue
        splices.append(U.Splice(it))
    return splices, obligations


class _InnerSplice:
    """Forward insertions for an inner fn to the enclosing impl's splice."""

    def __init__(self, outer, item):
        self.outer, self.item = outer, item

    def insert(self, off, text, tag):
        self.outer.insert(off, text, tag)

    def before_tok(self, tok, text, tag):
        self.outer.insert(tok.start, text, tag)

    def after_tok(self, tok, text, tag):
        self.outer.insert(tok.end, text, tag)


def _small_contract(it):
    c = C.AST_CONTRACTS[it.name]
    ps = U.param_names(it)
    if it.name == "extract_target_from_node":
        return "ensures r@ == spec_walk(set![%s], %s)" % (ps[0], ps[1])
    if it.name == "extract_targets_from_node":
        return "ensures r@ == spec_walk(tset(%s@, %s@.len() as int), %s)" % (ps[0], ps[0], ps[1])
    if it.name == "new_targets":
        return "ensures r@ == tset(%s@, %s@.len() as int)" % (ps[0], ps[0])
    return c


def _annotate_set_loops(sp, it, obligations):
    """`for t in targets { set.insert(t); }` loops of new_targets / extract_target(s)_from_node."""
    if it.name not in ("new_targets", "extract_targets_from_node", "extract_target_from_node"):
        return
    ts = it.toks
    U.body_insert_start(sp, "    proof { axiom_target_key_model(); }", "ghost:init")
    for k, lp in enumerate(U.find_for_loops(it)):
        # receiver of .insert( inside the loop body
        recv = None
        for i in range(lp["open"], lp["close"]):
            if ts[i].kind == "ident" and ts[i + 1].text == "." and ts[i + 2].text == "insert":
                recv = ts[i].text
                break
        if recv is None:
            raise C.LostAnchor("%s: loop without <set>.insert(..)" % it.name)
        sp.before_tok(ts[lp["in"] + 1], "it%d: " % k, "loop:binder")
        sp.before_tok(ts[lp["open"]], "\n    invariant %s@ =~= tset(it%d.seq(), it%d.index@),\n" % (recv, k, k), "ob:inv:%s.loop%d" % (it.name, k))
        sp.after_tok(ts[lp["open"]], " proof { axiom_target_key_model(); } ", "ghost:keymodel")
        obligations.append(("inv:%s.loop%d" % (it.name, k), "the set holds exactly the targets seen so far"))
    if it.name == "extract_target_from_node":
        # set![target] == {}.insert(target): help extensionality just before the call
        pass


def build(ctx, check_arms=None, helpers=None, probe=False, walker_external=False, plan=None, mode="post"):
    u = U.Unit("ast")
    u.raw(C.PRELUDE % {"features": "", "uses": ""}, "prelude")
    C.add_pt_module(u, ctx)
    u.raw(ctx.all_nodes_spec + "\n", "spec:generated:all_nodes")
    u.raw(ctx.kind_spec + "\n", "spec:generated:kind")
    u.raw(C.GENERIC_SPEC, "spec:generic")
    u.raw(TSET_SPEC, "spec:tset")
    u.raw(C.into_spec_impls(ctx), "spec:into")
    if plan is None and not walker_external:
        plan = plan_walker(ctx)
    splices, obligations = small_fn_splices(ctx, walker_external, plan, helpers, check_arms, probe, mode)
    for sp in splices:
        u.add_splice(sp)
    u.raw(C.EPILOGUE, "epilogue")
    u.obligations = obligations
    return u, plan


def probe_loop_types(ctx, plan, workdir):
    """Type-check-only pre-pass: ask rustc for the element type of every loop's iterator."""
    u, _ = build(ctx, probe=True, plan=plan)
    path = os.path.join(workdir, "ast_probe.rs")
    open(path, "w").write(u.render())
    p = subprocess.run(["verus", path, "--no-verify", "--", "--error-format=json"], capture_output=True, text=True)
    found = {}
    for line in p.stderr.splitlines():
        line = line.strip()
        if not line.startswith("{"):
            continue
        try:
            d = json.loads(line)
        except Exception:
            continue
        if d.get("code") and d["code"].get("code") == "E0308":
            txt = d.get("rendered", "")
            m = re.search(r"vx_probe_(\d+)", txt)
            m2 = re.search(r"found `Seq<(.*)>`", txt) or re.search(r"found struct `Seq<(.*)>`", txt)
            if m and m2:
                found[int(m.group(1))] = m2.group(1)
    helpers = []
    for k, lp in enumerate(plan["loops"]):
        if k not in found:
            raise C.Unsupported("could not infer the element type of loop %d (`for %s in %s`); rustc said: %s" % (
                k, lp["pat"], lp["expr"], p.stderr[-600:]))
        h = ctx.specgen.helper_for_elem(found[k])
        if h is None:
            raise C.Unsupported("loop %d iterates over %s, which has no node-carrying helper" % (k, found[k]))
        helpers.append(h)
    return helpers
