"""Assembly of single-file Verus units from byte ranges of /repo plus marked insertions.

A unit is a flat list of segments.  A segment is either
  * copied text  (meta: src file + byte offset)  -- never altered, or
  * inserted text (meta: tag)                     -- contracts, invariants, ghost code, attributes.
Rendering wraps every insertion made *inside a copied item* in `/*+vx <tag>*/ ... /*-vx*/` markers so
the fidelity check can strip them again and compare token streams with the item in /repo.
"""
import hashlib
import json
import os
import re

from . import rs

GHOST_OK = re.compile(
    r"^\s*(proof\s*\{|let\s+ghost\s|assert\s*\(|assert\s+forall|assume\s*\(|broadcast\s+use\s|reveal\s*\(|reveal_with_fuel\s*\(|//|$)")


class Seg:
    __slots__ = ("text", "src", "off", "tag")

    def __init__(self, text, src=None, off=None, tag=None):
        self.text, self.src, self.off, self.tag = text, src, off, tag


class Splice:
    """An item of /repo with pure insertions."""

    def __init__(self, item):
        self.item = item
        self.ins = []     # (abs offset in file, order, text, tag)
        self.rewrites = []  # (abs start, abs end, new text, tag)  -- R5 only, logged

    def insert(self, abs_off, text, tag):
        self.ins.append((abs_off, len(self.ins), text, tag))

    def before_tok(self, tok, text, tag):
        self.insert(tok.start, text, tag)

    def after_tok(self, tok, text, tag):
        self.insert(tok.end, text, tag)

    def rewrite(self, abs_start, abs_end, text, tag):
        self.rewrites.append((abs_start, abs_end, text, tag))

    def segments(self):
        it = self.item
        src = it.src
        events = [(o, 0, k, "ins", t, tag) for (o, k, t, tag) in self.ins]
        events += [(s, 1, 0, "rw", (e, t), tag) for (s, e, t, tag) in self.rewrites]
        events.sort(key=lambda e: (e[0], e[1], e[2]))
        segs = []
        pos = it.start
        for ev in events:
            o = ev[0]
            if o < pos:
                if ev[3] == "ins" and o >= it.start:
                    # insertion inside a rewritten range: dropped with the range (logged by caller)
                    continue
                raise ValueError("overlapping edits in %s" % it.name)
            if o > pos:
                segs.append(Seg(src[pos:o], it.path, pos))
                pos = o
            if ev[3] == "ins":
                segs.append(Seg("/*+vx %s*/%s/*-vx*/" % (ev[5], ev[4]), tag=ev[5]))
            else:
                e, t = ev[4]
                segs.append(Seg("/*+vxrw %s*/%s/*-vxrw*/" % (ev[5], t), tag=ev[5]))
                pos = e
        if pos < it.end:
            segs.append(Seg(src[pos:it.end], it.path, pos))
        return segs


_marker = re.compile(r"/\*\+vx [^*]*\*/.*?/\*-vx\*/", re.S)
_rwmarker = re.compile(r"/\*\+vxrw [^*]*\*/.*?/\*-vxrw\*/", re.S)


def fidelity(splice):
    """Strip marked insertions from the rendered item and compare token streams with /repo's item.
    Returns (ok, detail).  Items with R5 rewrites are compared outside the rewritten ranges only."""
    rendered = "".join(s.text for s in splice.segments())
    stripped = _marker.sub(" ", rendered)
    orig = splice.item.text
    if splice.rewrites:
        # blank the rewritten ranges on both sides
        stripped = _rwmarker.sub(" /*RW*/ ", stripped)
        o = orig
        base = splice.item.start
        for (s, e, _t, _tag) in sorted(splice.rewrites, reverse=True):
            o = o[:s - base] + " " + o[e - base:]
        orig = o
    a = rs.token_texts(stripped)
    b = rs.token_texts(orig)
    if a == b:
        return True, None
    for i, (x, y) in enumerate(zip(a, b)):
        if x != y:
            return False, "token %d: unit has %r, repo has %r" % (i, x, y)
    return False, "token count differs: %d vs %d" % (len(a), len(b))


class Unit:
    def __init__(self, name):
        self.name = name
        self.segs = []
        self.splices = []
        self.log = []          # fidelity / rewrite log entries
        self.obligations = []  # (tag, description)

    def raw(self, text, tag="spec"):
        self.segs.append(Seg(text, tag=tag))

    def add_splice(self, sp):
        self.splices.append(sp)
        self.segs += sp.segments()
        self.segs.append(Seg("\n\n", tag="ws"))

    def render(self):
        return "".join(s.text for s in self.segs)

    def line_table(self):
        """list indexed by 0-based char offset ranges -> seg; returns function pos->Seg and line starts"""
        text = self.render()
        starts = [0]
        for m in re.finditer("\n", text):
            starts.append(m.end())
        bounds = []
        p = 0
        for s in self.segs:
            bounds.append((p, p + len(s.text), s))
            p += len(s.text)
        return text, starts, bounds

    def locate(self, line, col):
        """Map a 1-based (line, col) of the rendered unit to a description of its origin."""
        text, starts, bounds = self.line_table()
        if line - 1 >= len(starts):
            return {"kind": "unknown"}
        pos = starts[line - 1] + max(col - 1, 0)
        import bisect
        idx = bisect.bisect_right([b[0] for b in bounds], pos) - 1
        s = bounds[idx][2]
        if s.src:
            off = s.off + (pos - bounds[idx][0])
            src = open(s.src).read()
            ln = src.count("\n", 0, off) + 1
            return {"kind": "repo", "file": s.src, "line": ln}
        return {"kind": "inserted", "tag": s.tag}

    def fidelity_report(self):
        out = {"unit": self.name, "items": [], "ok": True}
        for sp in self.splices:
            ok, detail = fidelity(sp)
            it = sp.item
            out["items"].append({
                "file": it.path, "item": "%s %s" % (it.kind, it.name), "bytes": [it.start, it.end],
                "sha256": hashlib.sha256(it.text.encode()).hexdigest(),
                "insertions": len(sp.ins), "rewrites": [t for (_s, _e, _x, t) in sp.rewrites],
                "ok": ok, "detail": detail})
            if not ok:
                out["ok"] = False
        return out


# ------------------------------------------------------------------ edits on fn items

def sig_parts(fn):
    """Return (params_open_idx, params_close_idx, arrow_idx or None, ret_first_idx, ret_last_idx) in fn.toks"""
    ts = fn.toks
    i = fn.sig_tok
    # skip generics after name
    j = i + 2
    if ts[j].text == "<":
        depth = 0
        while True:
            if ts[j].text == "<":
                depth += 1
            elif ts[j].text == ">":
                depth -= 1
            elif ts[j].text == ">>":
                depth -= 2
            j += 1
            if depth == 0:
                break
    assert ts[j].text == "(", (fn.name, ts[j].text)
    pc = rs.match_close(ts, j)
    arrow = None
    if ts[pc + 1].text == "->":
        arrow = pc + 1
    return j, pc, arrow


def param_names(fn):
    ts = fn.toks
    po, pc, _ = sig_parts(fn)
    names = []
    depth = 0
    start = po + 1
    k = po + 1
    cur = []
    while k <= pc:
        t = ts[k]
        if k == pc or (t.text == "," and depth == 0):
            if cur:
                # first ident before ':' (skip mut / & / self)
                for c in cur:
                    if c.kind == "ident" and c.text not in ("mut",):
                        names.append(c.text)
                        break
            cur = []
        else:
            if t.text in ("(", "[", "{", "<"):
                depth += 1
            elif t.text in (")", "]", "}", ">"):
                depth -= 1
            cur.append(t)
        k += 1
    return names


def add_contract(sp, clauses, ret_name="r", tag=None):
    """R1: name the return value and attach requires/ensures/decreases clauses."""
    fn = sp.item
    ts = fn.toks
    po, pc, arrow = sig_parts(fn)
    body = ts[fn.body_open]
    ctag = tag or ("ob:post:%s" % fn.name)
    if arrow is not None:
        first = ts[arrow + 1]
        last = ts[fn.body_open - 1]
        sp.before_tok(first, "(%s: " % ret_name, "sig")
        sp.after_tok(last, ")\n    %s\n" % clauses.strip(), ctag)
    else:
        sp.before_tok(body, "\n    %s\n" % clauses.strip(), ctag)


def add_attr(sp, attr, tag="attr"):
    it = sp.item
    sp.insert(it.toks[it.after_attrs].start, attr + "\n", tag)


def add_external_derive(sp):
    """R4: #[verifier::external_derive] after every #[derive(...)]"""
    it = sp.item
    ts = it.toks
    i = 0
    n = 0
    while i < it.after_attrs:
        if ts[i].text == "#":
            j = i + 1
            k = rs.match_close(ts, j)
            if ts[j + 1].text == "derive":
                sp.after_tok(ts[k], "\n#[verifier::external_derive]", "attr:external_derive")
                n += 1
            i = k + 1
        else:
            i += 1
    return n


def body_insert_start(sp, text, tag):
    fn = sp.item
    sp.after_tok(fn.toks[fn.body_open], "\n" + text + "\n", tag)


def find_for_loops(fn):
    """Yield dicts for every `for PAT in EXPR {` in the fn body (in source order)."""
    ts = fn.toks
    out = []
    i = fn.body_open + 1
    while i < fn.body_close:
        t = ts[i]
        if t.kind == "ident" and t.text == "for" and ts[i - 1].text not in (".",):
            # optional label before: 'outer: for
            label = None
            if ts[i - 1].text == ":" and ts[i - 2].kind == "life":
                label = ts[i - 2]
            # find 'in' at depth 0
            j = i + 1
            depth = 0
            while not (ts[j].kind == "ident" and ts[j].text == "in" and depth == 0):
                if ts[j].text in ("(", "["):
                    depth += 1
                elif ts[j].text in (")", "]"):
                    depth -= 1
                j += 1
            in_idx = j
            # body '{' : first '{' at depth 0 after in (struct literals are not allowed in this position)
            k = in_idx + 1
            depth = 0
            while not (ts[k].text == "{" and depth == 0):
                if ts[k].text in ("(", "["):
                    depth += 1
                elif ts[k].text in (")", "]"):
                    depth -= 1
                k += 1
            close = rs.match_close(ts, k)
            out.append({"for": i, "in": in_idx, "open": k, "close": close, "label": label,
                        "pat": fn.src[ts[i + 1].start:ts[in_idx - 1].end],
                        "expr": fn.src[ts[in_idx + 1].start:ts[k - 1].end]})
        i += 1
    return out


def find_plain_loops(fn):
    """every `loop {` / `while COND {` in the fn body: dicts with token indices"""
    ts = fn.toks
    out = []
    i = fn.body_open + 1
    while i < fn.body_close:
        t = ts[i]
        if t.kind == "ident" and t.text in ("loop", "while") and ts[i - 1].text != ".":
            j = i + 1
            depth = 0
            while not (ts[j].text == "{" and depth == 0):
                if ts[j].text in ("(", "["):
                    depth += 1
                elif ts[j].text in (")", "]"):
                    depth -= 1
                j += 1
            label = ts[i - 2] if ts[i - 1].text == ":" and ts[i - 2].kind == "life" else None
            out.append({"kw": i, "open": j, "close": rs.match_close(ts, j), "label": label, "kind": t.text})
        i += 1
    return out


def contains_continue(fn, lo, hi):
    """does token range (lo,hi) contain a `continue` that binds to this loop (not to a nested loop)?
    conservative: any `continue` token not inside a nested for/while/loop body."""
    ts = fn.toks
    i = lo
    while i < hi:
        t = ts[i]
        if t.kind == "ident" and t.text in ("for", "while", "loop"):
            # skip nested loop body
            j = i + 1
            depth = 0
            while not (ts[j].text == "{" and depth == 0):
                if ts[j].text in ("(", "["):
                    depth += 1
                elif ts[j].text in (")", "]"):
                    depth -= 1
                j += 1
            c = rs.match_close(ts, j)
            # a labelled continue inside the nested loop may still target us; handled by caller via label scan
            i = c + 1
            continue
        if t.kind == "ident" and t.text == "continue":
            return True
        i += 1
    return False


def match_arms(fn, match_idx):
    """ts[match_idx] is `match`; return (open_idx, close_idx, arms) with
    arms = [{'pat': (lo,hi), 'arrow': idx, 'body': (lo,hi), 'block': bool}]"""
    ts = fn.toks
    j = match_idx + 1
    depth = 0
    while not (ts[j].text == "{" and depth == 0):
        if ts[j].text in ("(", "["):
            depth += 1
        elif ts[j].text in (")", "]"):
            depth -= 1
        j += 1
    mo = j
    mc = rs.match_close(ts, mo)
    arms = []
    i = mo + 1
    while i < mc:
        lo = i
        depth = 0
        while not (ts[i].text == "=>" and depth == 0):
            if ts[i].text in ("(", "[", "{"):
                depth += 1
            elif ts[i].text in (")", "]", "}"):
                depth -= 1
            i += 1
        arrow = i
        b = arrow + 1
        if ts[b].text == "{":
            e = rs.match_close(ts, b)
            arms.append({"pat": (lo, arrow - 1), "arrow": arrow, "body": (b, e), "block": True})
            i = e + 1
            if i < mc and ts[i].text == ",":
                i += 1
        else:
            # expression body up to ',' at depth 0 (or end of match)
            k = b
            depth = 0
            while k < mc:
                if ts[k].text in ("(", "[", "{"):
                    k = rs.match_close(ts, k)
                elif ts[k].text == "," and depth == 0:
                    break
                k += 1
            arms.append({"pat": (lo, arrow - 1), "arrow": arrow, "body": (b, k - 1), "block": False})
            i = k + 1
    return mo, mc, arms


def pat_label(fn, arm):
    ts = fn.toks
    lo, hi = arm["pat"]
    # leading path of the pattern
    out = []
    i = lo
    while i <= hi and (ts[i].kind == "ident" or ts[i].text == "::"):
        out.append(ts[i].text)
        i += 1
    label = "".join(out) if out else fn.src[ts[lo].start:ts[hi].end]
    return label


def sha(text):
    return hashlib.sha256(text.encode()).hexdigest()
