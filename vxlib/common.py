"""Shared pieces of every Verus unit: the pt module, the Node/Target items, the generated specs."""
import os
import re

from . import rs, unit as U, ptspec

REPO = os.environ.get("VX_REPO", "/repo")
VERIF = os.path.dirname(os.path.dirname(os.path.abspath(__file__)))


class Ctx:
    def __init__(self, repo=REPO):
        self.repo = repo
        self.solang = ptspec.locate_solang(repo)
        self.tt = ptspec.TypeTable(os.path.join(self.solang["dir"], "src/pt.rs"))
        self.ast_path = os.path.join(repo, "src/analyzer/ast.rs")
        self.ast_src, self.ast_items = rs.load_items(self.ast_path)
        self.targets = ptspec.target_variants(self.ast_path)
        self.specgen = ptspec.SpecGen(self.tt)
        self.all_nodes_spec = self.specgen.all_nodes_spec()
        self.kind_spec = ptspec.kind_specs(self.tt, self.targets)
        self._files = {}

    def items(self, rel):
        p = os.path.join(self.repo, rel)
        if p not in self._files:
            self._files[p] = rs.load_items(p)
        return self._files[p][1]

    def fn(self, rel, name, impl=None):
        it = rs.find_fn(self.items(rel), name, impl)
        if it is None:
            raise LostAnchor("function %s not found in %s" % (name, rel))
        return it


class LostAnchor(Exception):
    pass


class Unsupported(Exception):
    pass


PRELUDE = """#![allow(unused_imports, unused_variables, unused_mut, unused_parens, non_snake_case, dead_code, unused_assignments, unreachable_patterns, unreachable_code)]
%(features)s
use vstd::prelude::*;
use std::{collections::{HashSet, HashMap}, vec};
use vstd::std_specs::convert::*;
use vstd::std_specs::iter::IteratorSpec;
%(uses)s
verus! {
"""

EPILOGUE = "\n} // verus!\nfn main() {}\n"


def add_pt_module(u, ctx):
    """R(3.1): every pub enum/struct/type of pt.rs, verbatim, inside `pub mod pt`, derives marked external."""
    u.raw("pub mod pt {\nuse super::*;\n", "ptmod")
    for it in ctx.tt.type_items:
        sp = U.Splice(it)
        U.add_external_derive(sp)
        u.add_splice(sp)
    # the one trait + impl of pt.rs that solstat's own code calls on parse-tree values (Expression::loc()):
    # copied verbatim and VERIFIED against the spec twin `code_loc` generated from the Expression type definition.
    # Insertions: a spec method carrying the precondition (non-empty string / hex literal piece lists: `v[0]`)
    # in the trait, `requires` on the method declaration, and the `ensures` on the impl's method.
    for it in ctx.tt.items:
        if it.kind == "trait" and it.name == "CodeLocation":
            sp = U.Splice(it)
            ts = it.toks
            bo = [k for k, t in enumerate(ts) if t.text == "{"][0]
            bc = rs.match_close(ts, bo)
            sp.after_tok(ts[bo], "\n    spec fn vx_loc_pre(&self) -> bool;", "spec:loc-pre")
            semi = [k for k in range(bo, bc) if ts[k].text == ";"]
            if len(semi) != 1:
                raise LostAnchor("trait CodeLocation no longer has exactly one method declaration")
            sp.before_tok(ts[semi[0]], " requires self.vx_loc_pre()", "ob:pre:CodeLocation_loc")
            u.add_splice(sp)
        elif it.kind == "impl" and it.name.replace(" ", "") == "CodeLocationforExpression":
            sp = U.Splice(it)
            bo = it.body_open if it.body_open is not None else [k for k, t in enumerate(it.toks) if t.text == "{"][0]
            sp.after_tok(it.toks[bo], "\n    open spec fn vx_loc_pre(&self) -> bool { crate::code_loc_pre(*self) }", "spec:loc-pre")
            inner = [f for f in it.inner_items() if f.kind == "fn" and f.name == "loc"]
            if len(inner) != 1:
                raise LostAnchor("impl CodeLocation for Expression: fn loc not found")
            fn = inner[0]
            ts = fn.toks
            # R1 on the inner fn (absolute offsets are shared with the impl item)
            po, pc, arrow = U.sig_parts(fn)
            sp.before_tok(ts[arrow + 1], "(r: ", "sig")
            sp.after_tok(ts[fn.body_open - 1], ")\n        ensures r == crate::code_loc(*self)\n    ", "ob:post:Expression_loc")
            u.add_splice(sp)
    u.raw("} // mod pt\n\n", "ptmod")
    u.raw(ptspec.code_loc_spec(ctx.tt), "spec:generated:code_loc")


GENERIC_SPEC = """
pub open spec fn kind(n: Node) -> Target {
    match n {
        Node::Statement(s) => kind_Statement(s),
        Node::Expression(e) => kind_Expression(e),
        Node::SourceUnit(_) => Target::SourceUnit,
        Node::SourceUnitPart(p) => kind_SourceUnitPart(p),
        Node::ContractPart(p) => kind_ContractPart(p),
    }
}
pub open spec fn all_nodes(n: Node) -> Seq<Node> {
    match n {
        Node::Statement(s) => an_Statement(s),
        Node::Expression(e) => an_Expression(e),
        Node::SourceUnit(u) => an_SourceUnit(u),
        Node::SourceUnitPart(p) => an_SourceUnitPart(p),
        Node::ContractPart(p) => an_ContractPart(p),
    }
}
pub open spec fn wanted(targets: Set<Target>, n: Node) -> bool { targets.contains(kind(n)) }
pub open spec fn flt(t: Set<Target>, s: Seq<Node>) -> Seq<Node> { s.filter(|m: Node| wanted(t, m)) }
/// C01: exactly the nodes of the wanted kinds, each once, in source (pre-)order.
pub open spec fn spec_walk(targets: Set<Target>, n: Node) -> Seq<Node> { flt(targets, all_nodes(n)) }

pub broadcast proof fn lemma_flt_add(t: Set<Target>, a: Seq<Node>, b: Seq<Node>)
    ensures #[trigger] flt(t, a + b) == flt(t, a) + flt(t, b)
{
    Seq::filter_distributes_over_add(a, b, |m: Node| wanted(t, m));
}
pub broadcast proof fn lemma_flt_one(t: Set<Target>, n: Node)
    ensures #[trigger] flt(t, seq![n]) == if wanted(t, n) { seq![n] } else { Seq::<Node>::empty() }
{
    reveal(Seq::filter);
    let s = seq![n];
    assert(s.drop_last() =~= Seq::<Node>::empty());
    assert(Seq::<Node>::empty().filter(|m: Node| wanted(t, m)) =~= Seq::<Node>::empty());
    assert(s.last() == n);
}
pub broadcast proof fn lemma_flt_empty(t: Set<Target>)
    ensures #[trigger] flt(t, Seq::<Node>::empty()) == Seq::<Node>::empty()
{
    reveal(Seq::filter);
}
pub broadcast proof fn lemma_add_assoc(a: Seq<Node>, b: Seq<Node>, c: Seq<Node>)
    ensures #[trigger] ((a + b) + c) == a + (b + c)
{
    assert(((a + b) + c) =~= a + (b + c));
}
// TRUSTED: the derived Eq/Hash of the field-less enum Target obey the HashSet key model.
#[verifier::external_body]
pub proof fn axiom_target_key_model()
    ensures vstd::std_specs::hash::obeys_key_model::<Target>()
{}
// TRUSTED: the derived Clone of Node returns an equal value.
pub assume_specification[ <Node as Clone>::clone ](n: &Node) -> (r: Node) ensures r == *n;
"""


def into_spec_impls(ctx):
    """One IntoSpecImpl per `impl Into<Node> for X` found in ast.rs (spec twin of the one-line body)."""
    out = []
    for it in ctx.ast_items:
        if it.kind == "impl" and it.name.replace(" ", "").startswith("Into<Node>for"):
            ty = it.name.replace(" ", "")[len("Into<Node>for"):]
            ty = ty.replace("::", " :: ").replace(" ", "")
            inner = it.inner_items()[0]
            body = inner.src[inner.toks[inner.body_open + 1].start:inner.toks[inner.body_close - 1].end].strip()
            out.append("impl IntoSpecImpl<Node> for %s { open spec fn obeys_into_spec() -> bool { true } open spec fn into_spec(self) -> Node { %s } }" % (ty, body))
    return "\n".join(out) + "\n"


AST_CONTRACTS = {
    "statement_as_target": "ensures r == kind_Statement(*statement)",
    "expression_as_target": "ensures r == kind_Expression(*expression)",
    "source_unit_part_as_target": "ensures r == kind_SourceUnitPart(*source_unit_part)",
    "contract_part_as_target": "ensures r == kind_ContractPart(*contract_part)",
    "as_target": "ensures r == kind(*self)",
    "walk_node_for_targets": "ensures r@ == spec_walk(targets@, node)",
    "extract_target_from_node": "ensures r@ == spec_walk(set![target], node)",
    "extract_targets_from_node": "ensures r@ == spec_walk(targets@.to_set(), node)",
    "new_targets": "ensures r@ == targets@.to_set()",
    "expression": "ensures r == (match self { Node::Expression(e) => Some(e), _ => None::<pt::Expression> })",
    "statement": "ensures r == (match self { Node::Statement(e) => Some(e), _ => None::<pt::Statement> })",
    "source_unit": "ensures r == (match self { Node::SourceUnit(e) => Some(e), _ => None::<pt::SourceUnit> })",
    "source_unit_part": "ensures r == (match self { Node::SourceUnitPart(e) => Some(e), _ => None::<pt::SourceUnitPart> })",
    "contract_part": "ensures r == (match self { Node::ContractPart(e) => Some(e), _ => None::<pt::ContractPart> })",
    "is_source_unit_part": "ensures r == (self is SourceUnitPart)",
    "is_contract_part": "ensures r == (self is ContractPart)",
}


def walker_contract_param_names(fn):
    return U.param_names(fn)
